------------------------------ MODULE HistBins ------------------------------
(***************************************************************************)
(* emd.spectra.define_hist_bins / define_hist_bins_from_data with a linear *)
(* scale on integer data (specification growth beyond C10/C11, which take  *)
(* the bin edges as given).  Values are carried times the number of bins   *)
(* and times two so that edges and centres are integers:                   *)
(*   edge_b   = lo + b (hi - lo) / n            ->  E2(b) = 2 (n lo + b (hi - lo))   *)
(*   centre_b = (edge_b + edge_{b+1}) / 2       ->  C2(b) = 2 n lo + (2 b + 1)(hi - lo) *)
(* With nbins undefined the number of bins is floor(sqrt(#samples)).       *)
(***************************************************************************)
EXTENDS Integers, Sequences, FiniteSets, TLC
CONSTANTS MaxV, MaxBins
VARIABLES lo, hi, n
Init == lo \in (-MaxV)..MaxV /\ hi \in (-MaxV)..MaxV /\ lo < hi /\ n \in 1..MaxBins
Next == UNCHANGED <<lo, hi, n>>
E2(b) == 2 * (n * lo + b * (hi - lo))
C2(b) == 2 * n * lo + (2 * b + 1) * (hi - lo)
Edges == [b1 \in 1..(n + 1) |-> E2(b1 - 1)]
Centres == [b1 \in 1..n |-> C2(b1 - 1)]
\* n + 1 strictly increasing edges from lo to hi, centres strictly inside their bins and at the middle
WellFormed == /\ Len(Edges) = n + 1 /\ Edges[1] = 2 * n * lo /\ Edges[n + 1] = 2 * n * hi
              /\ \A b \in 1..n : Edges[b] < Edges[b + 1] /\ 2 * Centres[b] = Edges[b] + Edges[b + 1]
\* every value of the closed data range falls into exactly one half-open bin - except the maximum itself, which lies
\* ON the last edge (so a spectrum built on these edges drops the largest sample: cf. C10's half-open last bin)
Partition == \A v \in lo..hi : Cardinality({b \in 1..n : Edges[b] <= 2 * n * v /\ 2 * n * v < Edges[b + 1]}) = (IF v = hi THEN 0 ELSE 1)
RECURSIVE ISqrt(_, _)
ISqrt(k, r) == IF (r + 1) * (r + 1) > k THEN r ELSE ISqrt(k, r + 1)
SqrtBins(k) == ISqrt(k, 0)
=============================================================================
