------------------------------ MODULE LoggerInd ------------------------------
(***************************************************************************)
(* The transition relation of Logger.tla without its ghost history, typed  *)
(* for Apalache, with an INDUCTIVE invariant: it lifts C20's               *)
(* "OverrideIsTemporary" from "all histories to depth d" (TLC) to "all     *)
(* histories of any length" at the level of the model.                     *)
(*   apalache-mc check --init=Init    --inv=IndInv --length=0 LoggerInd.tla *)
(*   apalache-mc check --init=IndInit --inv=IndInv --length=1 LoggerInd.tla *)
(* The second command starts from ANY state satisfying IndInv.             *)
(* (harness/mbv/checks/logger_check.py checks that every transition of     *)
(* Logger.tla, projected on these variables, is a transition of this       *)
(* module by running TLC on LoggerInd with the same invariants.)           *)
(***************************************************************************)
EXTENDS Integers

VARIABLES
    \* @type: Bool;
    setup,
    \* @type: Int;
    level,
    \* @type: Bool;
    disabled,
    \* @type: Bool;
    hasFile,
    \* @type: Int;
    explicit,
    \* @type: Str;
    pc,
    \* @type: Int;
    saved,
    \* @type: Int;
    over,
    \* @type: Str;
    outcome

Levels == {10, 20, 30, 50}
NoLevel == 0
Init == /\ setup = FALSE /\ level = NoLevel /\ disabled = FALSE /\ hasFile = FALSE /\ explicit = NoLevel
        /\ pc = "idle" /\ saved = NoLevel /\ over = NoLevel /\ outcome = "none"
Idle == pc = "idle"
NoCall == UNCHANGED <<pc, saved, over, outcome>>
SetUp(lvl, file) == /\ Idle /\ setup' = TRUE /\ hasFile' = file
                    /\ level' = (IF lvl = NoLevel THEN 20 ELSE lvl) /\ explicit' = (IF lvl = NoLevel THEN 20 ELSE lvl)
                    /\ UNCHANGED disabled /\ NoCall
SetLevel(l) == /\ Idle /\ level' = (IF setup THEN l ELSE level) /\ explicit' = (IF setup THEN l ELSE explicit)
               /\ UNCHANGED <<setup, disabled, hasFile>> /\ NoCall
Disable == Idle /\ disabled' = TRUE /\ UNCHANGED <<setup, level, hasFile, explicit>> /\ NoCall
Enable == Idle /\ disabled' = FALSE /\ UNCHANGED <<setup, level, hasFile, explicit>> /\ NoCall
CallEnter(v, out) == /\ Idle /\ pc' = "body" /\ over' = v /\ outcome' = out /\ saved' = level
                     /\ level' = (IF v # NoLevel /\ setup THEN v ELSE level)
                     /\ UNCHANGED <<setup, disabled, hasFile, explicit>>
CallBody == pc = "body" /\ pc' = "exit" /\ UNCHANGED <<setup, level, disabled, hasFile, explicit, saved, over, outcome>>
CallExit == /\ pc = "exit" /\ pc' = "idle"
            /\ level' = (IF over = NoLevel \/ saved = NoLevel THEN level ELSE saved)
            /\ UNCHANGED <<setup, disabled, hasFile, explicit, saved, over, outcome>>
Next == \/ \E l \in Levels \union {NoLevel} : \E f \in BOOLEAN : SetUp(l, f)
        \/ \E l \in Levels : SetLevel(l)
        \/ Disable \/ Enable
        \/ \E v \in Levels \union {NoLevel} : \E o \in {"returns", "raises"} : CallEnter(v, o)
        \/ CallBody \/ CallExit

OverrideIsTemporary == pc = "idle" => level = explicit
IndInv == /\ pc \in {"idle", "body", "exit"}
          /\ level \in Levels \union {NoLevel} /\ explicit \in Levels \union {NoLevel}
          /\ saved \in Levels \union {NoLevel} /\ over \in Levels \union {NoLevel}
          /\ outcome \in {"none", "returns", "raises"}
          /\ setup = (explicit # NoLevel)
          /\ pc = "idle" => level = explicit
          /\ pc # "idle" => /\ saved = explicit
                            /\ level = (IF over # NoLevel /\ setup THEN over ELSE explicit)
LS == Levels \union {NoLevel}
IndInit == /\ setup \in BOOLEAN /\ level \in LS /\ disabled \in BOOLEAN /\ hasFile \in BOOLEAN /\ explicit \in LS
           /\ pc \in {"idle", "body", "exit"} /\ saved \in LS /\ over \in LS /\ outcome \in {"none", "returns", "raises"}
           /\ IndInv
=============================================================================
