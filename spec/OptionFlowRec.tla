---------------------------- MODULE OptionFlowRec ----------------------------
(* Leg C for C06: one record per observed call of a stage function (get_next_imf, interp_envelope, *)
(* get_padded_extrema) during a top-level sift call, in the parent or in a pool worker, with the   *)
(* option groups it effectively received classified as "user" (exactly the supplied non-default    *)
(* values), "default" or "mixed".                                                                  *)
EXTENDS OptionFlowDef, Json, IOUtils

Recs == JsonDeserialize(IOEnv.RECS_FILE)
VARIABLE ri
NB == 64
RInit == ri \in {-b : b \in 1..NB}
RNext == \/ ri < 0 /\ ri' \in {i \in 1..Len(Recs) : i % NB = (-ri) % NB}
         \/ ri > 0 /\ UNCHANGED ri
Bad(c) == PrintT(<<"BADREC", ri, c>>)
Is(got, want, c) == IF got = want THEN TRUE ELSE Bad(c)
Ok(cond, c) == IF cond THEN TRUE ELSE Bad(c)

RecOK == ri > 0 =>
    LET r == Recs[ri] IN
    CASE r.kind = "stage" ->
            /\ Ok(<<r.caller, r.stage>> \in Edges, "edge.known_to_the_specification")
            /\ Is(r.sees[StageGroup(r.stage)], r.supplied[StageGroup(r.stage)], "stage.sees_the_options_supplied_for_it")
            /\ (r.stage = "get_next_imf" => /\ Is(r.sees["env"], r.supplied["env"], "get_next_imf.carries_envelope_options")
                                            /\ Is(r.sees["ext"], r.supplied["ext"], "get_next_imf.carries_extrema_options"))
            /\ (r.stage = "interp_envelope" => Is(r.sees["ext"], r.supplied["ext"], "interp_envelope.carries_extrema_options"))
      [] r.kind = "run" ->
            /\ Is(r.raised, 0, "run.completed")
            /\ Ok(r.raised = 1 \/ (r.n_get_next_imf > 0 /\ r.n_interp_envelope > 0 /\ r.n_get_padded_extrema > 0), "run.every_stage_observed")
            /\ Is(r.caller_opts_untouched, 1, "run.supplied_option_objects_unchanged")
      [] r.kind = "zero" ->     \* an option value of exactly zero is a supplied value, not "no value": same result as a tiny positive one;
                                \* an option keeps its effect when the data is expressed in a tiny unit (exact power of two)
            /\ Is(r.raised, 0, "option_size_leg.run_completed")
            /\ Is(r.same, 1, "option.takes_effect_whatever_the_size_of_the_numbers_involved")
      [] r.kind = "reuse" ->    \* the caller's option objects are edited in place between two calls: the second call sees the new values
            /\ Is(r.raised, 0, "edited_option_object.run_completed")
            /\ Is(r.same, 1, "edited_option_object.second_call_uses_the_current_values")
      [] OTHER -> Bad("unknown record kind")
=============================================================================
