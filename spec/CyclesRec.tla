----------------------------- MODULE CyclesRec -----------------------------
(* Legs B/C for C12/C13: recorded calls of the real code validated against CyclesDef. *)
EXTENDS CyclesDef, Json, IOUtils

---------------------------------------------------------------------------
(* Legs B/C: recorded calls of the real code, one record per TLC state.    *)
(* rec = [kind, p, step, edge, good, mask, out, ...]                       *)

Recs == JsonDeserialize(IOEnv.RECS_FILE)
\* One record = one state.  TLC evaluates invariants of INITIAL states in a single thread, so the
\* initial states are NB bucket seeds (ri < 0) and one Next step fans out to the records of the bucket.
VARIABLE ri
NB == 64
RInit == ri \in {-b : b \in 1..NB}
RNext == \/ ri < 0 /\ ri' \in {i \in 1..Len(Recs) : i % NB = (-ri) % NB}
         \/ ri > 0 /\ UNCHANGED ri

Bad(c) == PrintT(<<"BADREC", ri, c>>)
ToSeq(f) == [i \in 1..Len(f) |-> f[i]]
BoolSeq(s) == [i \in 1..Len(s) |-> s[i] = 1]

RecOK == ri > 0 =>
    LET r == Recs[ri] IN
    CASE r.kind = "cv" ->
            \* get_cycle_vector(p, return_good=r.good, mask=..., phase_step, phase_edge) -> label vector
            LET m == IF r.hasmask = 1 THEN BoolSeq(r.mask) ELSE NoMask(Len(r.p))
                want == CycleVector(r.p, r.step, r.edge, r.good = 1, m)
            IN  IF r.out = ToSeq(want) THEN TRUE ELSE Bad("cycle_vector")
      [] r.kind = "isgood" ->
            \* is_good(segment, ret_all_checks=True, phase_edge) -> 3 criteria, one by one
            LET seg == 1..Len(r.p)
                want == << IF Increasing(r.p, seg) THEN 1 ELSE 0,
                           IF StartsLow(r.p, seg, r.edge) THEN 1 ELSE 0,
                           IF EndsHigh(r.p, seg, r.edge) THEN 1 ELSE 0 >>
            IN  IF r.out = want THEN TRUE
                ELSE IF r.out[1] # want[1] THEN Bad("is_good.increasing")
                ELSE IF r.out[2] # want[2] THEN Bad("is_good.start") ELSE Bad("is_good.end")
      [] r.kind = "container" ->
            \* Cycles(p, phase_step, phase_edge).metrics['is_good'] : one flag per all-cycles segment
            LET v == CycleVector(r.p, r.step, r.edge, FALSE, NoMask(Len(r.p)))
                K == Cardinality({v[i] : i \in 1..Len(v)} \ {-1})
                want == [c \in 1..K |-> IF Good(r.p, {i \in 1..Len(v) : v[i] = c - 1}, r.edge) THEN 1 ELSE 0]
            IN  IF r.out = ToSeq(want) THEN TRUE ELSE Bad("container.is_good")
      [] r.kind = "wraps" ->
            \* long float phases: the harness supplies the wrap positions and per-segment criteria
            \* (exact float comparisons); the spec recomputes the labelling from those facts.
            LET n == r.n
                W == {r.wraps[j] : j \in 1..Len(r.wraps)}
                segof == [i \in 1..n |-> Cardinality({w \in W : w <= i}) + 1]
                acc == [k \in 1..(Cardinality(W) + 1) |-> r.accept[k] = 1]
                lab == [k \in 1..(Cardinality(W) + 1) |-> Cardinality({j \in 1..(k-1) : acc[j]})]
                want == IF W = {} THEN [i \in 1..n |-> -1]
                        ELSE [i \in 1..n |-> IF acc[segof[i]] THEN lab[segof[i]] ELSE -1]
            IN  IF r.out = want THEN TRUE ELSE Bad("cycle_vector.long")
      [] OTHER -> Bad("unknown record kind")
=============================================================================
