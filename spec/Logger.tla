------------------------------- MODULE Logger -------------------------------
(***************************************************************************)
(* The process-global state of emd's logger and the per-call verbosity     *)
(* override (emd.logger.set_up / set_level / get_level / disable / enable  *)
(* and the wrap_verbose decorator around every sift variant).              *)
(*                                                                         *)
(*   setup    the 'emd' logger has been configured (else only NullHandler) *)
(*   level    level of the console handler = get_level(); 0 = no handler   *)
(*   disabled logging.disable(maxsize) is in force                         *)
(*   hasFile  a rotating file handler is attached                          *)
(* A decorated call is THREE steps, because that is what wrap_verbose does *)
(* and what can go wrong between them: CallEnter saves the level and       *)
(* applies the override, CallBody runs the sift (returns or raises),       *)
(* CallExit restores.                                                      *)
(***************************************************************************)
EXTENDS Integers, Sequences, FiniteSets, TLC

CONSTANTS Levels,      \* subset of {10, 20, 30, 50}
          MaxOps,      \* bound on the number of operations in a history (model checking only)
          Dev          \* deviations: "NoRestoreOnRaise", "RestoreViaNameOfNone"

NoLevel == 0
VARIABLES setup, level, disabled, hasFile,      \* logger state
          explicit,                             \* ghost: level last set by set_up / set_level (what the user asked for)
          pc, saved, over, outcome, err,        \* the call in progress
          hist                                  \* ghost: operations so far
lvars == <<setup, level, disabled, hasFile>>
vars == <<setup, level, disabled, hasFile, explicit, pc, saved, over, outcome, err, hist>>

Init == /\ setup = FALSE /\ level = NoLevel /\ disabled = FALSE /\ hasFile = FALSE /\ explicit = NoLevel
        /\ pc = "idle" /\ saved = NoLevel /\ over = NoLevel /\ outcome = "none" /\ err = "none" /\ hist = <<>>

Idle == pc = "idle" /\ err = "none" /\ Len(hist) < MaxOps
Op(o) == hist' = Append(hist, o)
NoCall == UNCHANGED <<pc, saved, over, outcome, err>>

\* set_up(level=lvl, log_file=...) : lvl = NoLevel means "level not given" -> the configured default INFO
SetUp(lvl, file) == /\ Idle
                    /\ setup' = TRUE /\ hasFile' = file
                    /\ level' = (IF lvl = NoLevel THEN 20 ELSE lvl) /\ explicit' = (IF lvl = NoLevel THEN 20 ELSE lvl)
                    /\ UNCHANGED disabled /\ NoCall /\ Op(<<"set_up", lvl, file>>)
\* set_level(l) : only the console handler, if there is one
SetLevel(l) == /\ Idle
               /\ level' = (IF setup THEN l ELSE level) /\ explicit' = (IF setup THEN l ELSE explicit)
               /\ UNCHANGED <<setup, disabled, hasFile>> /\ NoCall /\ Op(<<"set_level", l>>)
Disable == /\ Idle /\ disabled' = TRUE /\ UNCHANGED <<setup, level, hasFile, explicit>> /\ NoCall /\ Op(<<"disable">>)
Enable == /\ Idle /\ disabled' = FALSE /\ UNCHANGED <<setup, level, hasFile, explicit>> /\ NoCall /\ Op(<<"enable">>)

\* a decorated sift call with verbose = v (NoLevel = not given) whose body returns or raises
CallEnter(v, out) == /\ Idle
                     /\ pc' = "body" /\ over' = v /\ outcome' = out
                     /\ saved' = level                                          \* current_level = get_level()
                     /\ level' = (IF v # NoLevel /\ setup THEN v ELSE level)    \* set_level(tmp_level)
                     /\ UNCHANGED <<setup, disabled, hasFile, explicit, err>> /\ Op(<<"call", v, out>>)
CallBody == /\ pc = "body" /\ pc' = "exit"
            /\ UNCHANGED <<setup, level, disabled, hasFile, explicit, saved, over, outcome, err, hist>>
CallExit == /\ pc = "exit" /\ pc' = "idle"
            /\ IF over = NoLevel \/ (outcome = "raises" /\ "NoRestoreOnRaise" \in Dev)
               THEN UNCHANGED <<level, err>>
               ELSE IF saved = NoLevel
                    THEN /\ UNCHANGED level
                         /\ err' = (IF "RestoreViaNameOfNone" \in Dev THEN "KeyError" ELSE err)
                    ELSE level' = saved /\ UNCHANGED err
            /\ UNCHANGED <<setup, disabled, hasFile, explicit, saved, over, outcome, hist>>

Next == \/ \E l \in Levels \cup {NoLevel} : \E f \in BOOLEAN : SetUp(l, f)
        \/ \E l \in Levels : SetLevel(l)
        \/ Disable \/ Enable
        \/ \E v \in Levels \cup {NoLevel} : \E o \in {"returns", "raises"} : CallEnter(v, o)
        \/ CallBody \/ CallExit
Spec == Init /\ [][Next]_vars

---------------------------------------------------------------------------
(* C20 *)
\* a per-call override is in force only for that call: whenever no call is in progress the console
\* level is the one the user last set explicitly (or there is no console handler)
OverrideIsTemporary == pc = "idle" => level = explicit
RestoredOnExit == [][(pc = "exit" /\ pc' = "idle") => level' = saved]_vars
\* requesting an override before set_up is harmless
HarmlessBeforeSetup == err = "none"
\* the override really is applied during the call (otherwise the property would be vacuous)
OverrideApplied == (pc \in {"body", "exit"} /\ over # NoLevel /\ setup) => level = over
TypeOK == level \in Levels \cup {NoLevel, 20} /\ (setup = (level # NoLevel))

\* every step of this model, projected on the variables without the ghost history, is a step (or a stutter) of LoggerInd,
\* the typed module on which Apalache proves the inductive invariant for histories of ANY length
LI == INSTANCE LoggerInd
RefinesInd == [][LI!Next]_<<setup, level, disabled, hasFile, explicit, pc, saved, over, outcome>>
W_RaiseRestores == ~(pc = "idle" /\ Len(hist) > 0 /\ hist[Len(hist)][1] = "call" /\ hist[Len(hist)][3] = "raises"
                     /\ hist[Len(hist)][2] # NoLevel /\ setup /\ hist[Len(hist)][2] # level)
Json == INSTANCE Json
ExportState == [setup |-> setup, level |-> level, disabled |-> disabled, hasFile |-> hasFile]
Export == pc = "idle" => PrintT(<<"BEHAVIOUR", Json!ToJson([hist |-> hist, state |-> ExportState])>>)
=============================================================================
