----------------------------- MODULE SiftConfig -----------------------------
(***************************************************************************)
(* The SiftConfig mapping (emd.sift.SiftConfig / get_config): a nested     *)
(* store of options addressed either by slash-separated key paths or by    *)
(* nested indexing, persisted to YAML and read back.                       *)
(*                                                                         *)
(* The store is a finite tree of depth <= 3.  LeafPaths is the universe of *)
(* addressable leaves of the abstracted default configuration (plus one    *)
(* fresh key per level); a leaf holds a tagged value token or is "absent". *)
(* Operations (each performed on the real object through BOTH interfaces   *)
(* by the harness, which compares both with this model after every step):  *)
(*   Set(p, v), Del(p) for leaf or group paths p, RoundTrip(route).        *)
(***************************************************************************)
EXTENDS Integers, Sequences, FiniteSets, TLC

CONSTANTS MaxOps, Values

\* leaves of the abstract configuration: <<top>>, <<group, key>>, <<group, subgroup, key>>
LeafPaths == { <<"max_imfs">>, <<"newtop">>,
               <<"imf_opts", "sd_thresh">>, <<"imf_opts", "rilling_thresh">>, <<"imf_opts", "newkey">>,
               <<"extrema_opts", "pad_width">>,
               <<"extrema_opts", "mag_pad_opts", "stat_length">>, <<"extrema_opts", "mag_pad_opts", "newkey">>,
               <<"extrema_opts", "mag_pad_opts", "mode">> }     \* mode + stat_length are ALL the default entries of that group: it can be emptied
GroupPaths == { <<"imf_opts">>, <<"extrema_opts">>, <<"extrema_opts", "mag_pad_opts">> }
IsPrefix(g, p) == Len(g) <= Len(p) /\ SubSeq(p, 1, Len(g)) = g
Absent == "absent"
\* YAML has no tuples or arrays at option level: they come back as lists
\* (only the OUTER level is converted: a tuple nested inside a sequence stays a tuple)
\* (a one-element array is a one-element LIST afterwards, a 1 x 2 array a list holding one list: shapes are kept)
Yamlise(v) == CASE v \in {"Tuple12", "Arr12"} -> "List12" [] v = "TupTup" -> "ListTup" [] v = "Arr1" -> "List1"
                [] v = "Arr2D" -> "ListList" [] OTHER -> v

VARIABLES store,      \* [LeafPaths -> Values \cup {Absent}]
          groups,     \* set of group paths that exist
          siftType,   \* the sift type carried by the object
          lastGet,    \* result of the last Get
          witness,    \* the store of ANOTHER configuration object obtained from get_config before the history began
          hist
vars == <<store, groups, siftType, lastGet, witness, hist>>

InitStore == [p \in LeafPaths |-> IF p[Len(p)] \in {"newtop", "newkey"} THEN Absent ELSE "Default"]
Init == /\ store = InitStore /\ witness = InitStore
        /\ groups = GroupPaths /\ siftType = "variant" /\ lastGet = "none" /\ hist = <<>>
Bound == Len(hist) < MaxOps
ParentsExist(p) == \A g \in GroupPaths : (IsPrefix(g, p) /\ g # p) => g \in groups

\* cfg['a/b/c'] = v   ==   cfg['a']['b']['c'] = v
Set(p, v) == /\ Bound /\ p \in LeafPaths /\ ParentsExist(p)
             /\ store' = [store EXCEPT ![p] = v]
             /\ hist' = Append(hist, <<"set", p, v>>) /\ UNCHANGED <<groups, siftType, lastGet, witness>>
\* del cfg['a/b/c'] : exactly the addressed leaf disappears
DelLeaf(p) == /\ Bound /\ p \in LeafPaths /\ ParentsExist(p) /\ store[p] # Absent
              /\ store' = [store EXCEPT ![p] = Absent]
              /\ hist' = Append(hist, <<"del", p, "-">>) /\ UNCHANGED <<groups, siftType, lastGet, witness>>
\* del cfg['a/b'] for a group: the group and everything under it disappear, nothing else
DelGroup(g) == /\ Bound /\ g \in groups /\ ParentsExist(g)
               /\ groups' = {h \in groups : ~IsPrefix(g, h)}
               /\ store' = [p \in LeafPaths |-> IF IsPrefix(g, p) THEN Absent ELSE store[p]]
               /\ hist' = Append(hist, <<"del", g, "-">>) /\ UNCHANGED <<siftType, lastGet, witness>>
\* v = cfg['a/b/c']
Get(p) == /\ Bound /\ p \in LeafPaths /\ ParentsExist(p) /\ store[p] # Absent
          /\ lastGet' = store[p]
          /\ hist' = Append(hist, <<"get", p, "-">>) /\ UNCHANGED <<store, groups, siftType, witness>>
\* cfg['a/b/c'], 'a/b/c' in cfg, cfg.get('a/b/c'), del cfg['a/b/c'] for a path that does not exist (the leaf is absent, or a
\* group above it is - LeavesNeedParents): KeyError / False / the default, and NOTHING changes, which is what nested indexing does
Miss(p) == /\ Bound /\ p \in LeafPaths /\ store[p] = Absent
           /\ hist' = Append(hist, <<"miss", p, "-">>) /\ UNCHANGED <<store, groups, siftType, lastGet, witness>>
\* to_yaml_file -> from_yaml_file ; to_yaml_text -> from_yaml_stream ; to_yaml_file -> open() -> from_yaml_stream
RoundTrip(route) == /\ Bound
                    /\ store' = [p \in LeafPaths |-> Yamlise(store[p])]
                    /\ hist' = Append(hist, <<"roundtrip", <<route>>, "-">>) /\ UNCHANGED <<groups, siftType, lastGet, witness>>
\* to_yaml_text() / to_yaml_file() alone.  AS IMPLEMENTED writing is not free of side effects on the object written: the
\* store is copied one level deep only, so tuples / arrays held INSIDE an option group become lists in the live object
\* (top-level values are left alone).  C18 says nothing about the object after saving; the model follows the code and the
\* observation is recorded in DESIGN appendix B.
Save(route) == /\ Bound
               /\ store' = [p \in LeafPaths |-> IF Len(p) >= 2 THEN Yamlise(store[p]) ELSE store[p]]
               /\ hist' = Append(hist, <<"save", <<route>>, "-">>) /\ UNCHANGED <<groups, siftType, lastGet, witness>>
Next == \/ \E p \in LeafPaths : \E v \in Values : Set(p, v)
        \/ \E p \in LeafPaths : DelLeaf(p) \/ Get(p) \/ Miss(p)
        \/ \E g \in GroupPaths : DelGroup(g)
        \/ \E r \in {"file", "text", "handle"} : RoundTrip(r)
        \/ \E r \in {"file", "text"} : Save(r)
Spec == Init /\ [][Next]_vars

\* C18
\* configuration objects are independent: no operation on one is visible in another (nor in a later get_config)
WitnessUntouched == witness = InitStore
LeavesNeedParents == \A p \in LeafPaths : store[p] # Absent => ParentsExist(p)
DeleteExact == [][\A p \in LeafPaths : (hist' # hist /\ hist'[Len(hist')][1] = "del" /\ ~IsPrefix(hist'[Len(hist')][2], p)) => store'[p] = store[p]]_vars
ReadsChangeNothing == [][(hist' # hist /\ hist'[Len(hist')][1] \in {"miss", "get"}) => (store' = store /\ groups' = groups /\ siftType' = siftType)]_vars
RoundTripFaithful == [][(hist' # hist /\ hist'[Len(hist')][1] = "roundtrip") =>
                         (siftType' = siftType /\ groups' = groups /\ \A p \in LeafPaths : store'[p] = Yamlise(store[p]))]_vars
RoundTripIdempotent == [][(hist' # hist /\ hist'[Len(hist')][1] = "roundtrip" /\ Len(hist) > 0 /\ hist[Len(hist)][1] = "roundtrip") => store' = store]_vars
W_TupleBecomesList == ~(\E p \in LeafPaths : store[p] = "List12" /\ \E k \in 1..Len(hist) : hist[k] = <<"set", p, "Tuple12">>
                         /\ \A j \in (k+1)..Len(hist) : hist[j][1] = "roundtrip")
Json == INSTANCE Json
Order == << <<"max_imfs">>, <<"newtop">>, <<"imf_opts", "sd_thresh">>, <<"imf_opts", "rilling_thresh">>, <<"imf_opts", "newkey">>,
            <<"extrema_opts", "pad_width">>, <<"extrema_opts", "mag_pad_opts", "stat_length">>, <<"extrema_opts", "mag_pad_opts", "newkey">>,
            <<"extrema_opts", "mag_pad_opts", "mode">> >>
Export == PrintT(<<"BEHAVIOUR", Json!ToJson([hist |-> hist, state |-> [i \in 1..Len(Order) |-> store[Order[i]]],
                                           groups |-> [g \in 1..3 |-> (<< <<"imf_opts">>, <<"extrema_opts">>, <<"extrema_opts", "mag_pad_opts">> >>)[g] \in groups],
                                           lastGet |-> lastGet, siftType |-> siftType,
                                           witness |-> [i \in 1..Len(Order) |-> witness[Order[i]]]])>>)
=============================================================================
