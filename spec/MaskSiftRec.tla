----------------------------- MODULE MaskSiftRec -----------------------------
(* Legs B/C for C07: records of real mask_sift / get_next_imf_mask runs.  The arrays every job    *)
(* received are traced inside the worker processes; the harness subtracts the layer input to get  *)
(* the mask actually added, fits amplitude / phase at the RETURNED frequency and recomputes the   *)
(* collation; the structural rules (phases, ladder, amplitude source) are the specification's.    *)
EXTENDS MaskSiftDef, Json, IOUtils

Recs == JsonDeserialize(IOEnv.RECS_FILE)
VARIABLE ri
NB == 64
RInit == ri \in {-b : b \in 1..NB}
RNext == \/ ri < 0 /\ ri' \in {i \in 1..Len(Recs) : i % NB = (-ri) % NB}
         \/ ri > 0 /\ UNCHANGED ri
Bad(c) == PrintT(<<"BADREC", ri, c>>)
Is(got, want, c) == IF got = want THEN TRUE ELSE Bad(c)
Ok(cond, c) == IF cond THEN TRUE ELSE Bad(c)

RecOK == ri > 0 =>
    LET r == Recs[ri] IN
    CASE r.kind = "layer" ->
            /\ Is(r.njobs, r.n, "jobs.one_per_phase")
            /\ Ok({r.phase_idx[j] : j \in 1..Len(r.phase_idx)} = Phases(r.n) /\ Len(r.phase_idx) = r.n, "phases.each_exactly_once_equally_spaced")
            /\ Is(r.fit_ok, 1, "mask.is_sinusoid_at_returned_frequency")
            /\ Ok(\E j \in 1..Len(r.amp_matches) : r.amp_matches[j] = AmpSource(r.mode, r.k), "amplitude.follows_mode")
            /\ Is(r.collate_ok, 1, "result.is_mean_of_extraction_minus_own_mask")
      [] r.kind = "run" ->
            /\ Is(r.raised, 0, "run.completed")
            /\ (r.raised = 0 =>
                /\ Ok(r.ladder = 0 \/ LadderOK(r.z6, r.p, r.q), "ladder.first_frequency_over_powers_of_step")
                /\ Is(r.list_ok, 1, "ladder.user_list_is_used")
                /\ Is(r.zc_ok, 1, "ladder.first_frequency_from_zero_crossings")
                /\ Is(r.if_ok, 1, "ladder.first_frequency_from_instantaneous_frequency")
                /\ Is(r.same_across_procs, 1, "result.independent_of_worker_count")
                /\ Is(r.nfreqs_ok, 1, "returned_frequencies.one_per_component"))
      [] r.kind = "zero" -> Is(r.zero_ok, 1, "zero_amplitude.reduces_to_unmasked_extraction")
      [] r.kind = "zerofreq" ->     \* frequency 0: the mask is the constant amp * cos(phase), added before and removed after extraction
                                    \* (also: the same extraction in a tiny unit - a mask is never "absent" because it is small)
            /\ Is(r.helper_ok, 1, "zero_frequency.mask_is_added_and_removed(get_next_imf_mask)")
            /\ Is(r.sift_ok, 1, "zero_frequency.mask_is_added_and_removed(mask_sift)")
      [] r.kind = "sched" -> Is(r.same, 1, "result.independent_of_schedule")
      [] OTHER -> Bad("unknown record kind")
=============================================================================
