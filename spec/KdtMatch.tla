------------------------------ MODULE KdtMatch ------------------------------
(* Leg A for C17: the documented greedy procedure always yields a Valid pairing - for every    *)
(* instance with integer features, every admissible result of the neighbour query (all ways of *)
(* breaking distance ties), K and bound in the enumerated domain.                              *)
EXTENDS KdtMatchDef

CONSTANTS NX, NY, Coords, Ks, Bounds, Dev

VARIABLES x, y, K, b2, nbr, full
vars == <<x, y, K, b2, nbr, full>>
Pts == [1..1 -> Coords]
Init == /\ x \in [1..NX -> Pts] /\ y \in [1..NY -> Pts] /\ K \in Ks /\ b2 \in Bounds
        /\ nbr = <<>> /\ full = FALSE
Expand == /\ ~full /\ full' = TRUE
          /\ nbr' \in QueryTables(x, y, K, b2, NX)
          /\ UNCHANGED <<x, y, K, b2>>
Next == Expand \/ (full /\ UNCHANGED vars)

Result == Greedy(x, y, K, nbr, Dev # {})
GreedyIsValid == full => (ValidQuery(x, y, K, b2, nbr) /\ Valid(x, y, K, b2, Result[1], Result[2]))
W_SomeUnmatched == ~(full /\ Len(Result[1]) < NX /\ Len(Result[1]) > 0)
W_TieBroken == ~(full /\ \E i \in 1..NX : \E a, b \in 1..NY : a # b /\ D2(x[i], y[a]) = D2(x[i], y[b]))
=============================================================================
