-------------------------- MODULE SiftVariantsRec --------------------------
(* Leg C for C03: recorded real runs of all sift variants across cap values, validated against *)
(* the column counts dictated by Sift.tla (Prefix) and SiftVariants.tla.                       *)
EXTENDS Integers, Sequences, FiniteSets, TLC, Json, IOUtils

Recs == JsonDeserialize(IOEnv.RECS_FILE)
VARIABLE ri
NB == 64
RInit == ri \in {-b : b \in 1..NB}
RNext == \/ ri < 0 /\ ri' \in {i \in 1..Len(Recs) : i % NB = (-ri) % NB}
         \/ ri > 0 /\ UNCHANGED ri
Bad(c) == PrintT(<<"BADREC", ri, c>>)
Is(got, want, c) == IF got = want THEN TRUE ELSE Bad(c)
Ok(cond, c) == IF cond THEN TRUE ELSE Bad(c)
Min(a, b) == IF a < b THEN a ELSE b

RecOK == ri > 0 =>
    LET r == Recs[ri] IN
    CASE r.kind = "capped" ->     \* classic / masked sift with cap r.cap vs the uncapped run of the same input
            LET capeff == IF r.listlen # 0 /\ r.listlen < r.cap THEN r.listlen ELSE r.cap IN
            /\ Is(r.ncols, Min(capeff, r.ncols_unc), "cap.column_count_is_min_of_cap_and_uncapped")
            /\ Is(r.prefix_equal, 1, "cap.columns_are_prefix_of_uncapped_run")
            /\ Is(r.ndim, 2, "result.samples_by_components") /\ Is(r.finite, 1, "result.finite")
            /\ Is(r.nrows, r.n, "result.one_row_per_sample")
      [] r.kind = "peel" ->       \* column k == (masked) single-IMF extraction of X - sum of the first k-1 columns
            Is(r.equal, 1, "peel.column_is_extraction_of_running_residual")
      [] r.kind = "capvar" ->     \* ensemble / complete ensemble
            IF r.raised = 1 THEN TRUE
            ELSE /\ Ok(r.cap = 0 \/ r.ncols <= r.cap, "cap.respected")
                 /\ Is(r.ndim, 2, "result.samples_by_components") /\ Is(r.finite, 1, "result.finite")
                 /\ Is(r.nrows, r.n, "result.one_row_per_sample")
      [] r.kind = "second" ->     \* second-layer sifts: [samples x first-level IMFs x second-level IMFs]
            IF r.raised = 1 THEN TRUE
            ELSE /\ Is(r.ndim, 3, "second.three_dimensional")
                 /\ Ok(r.cap = 0 \/ r.shape[3] <= r.cap, "cap.respected")
                 /\ Is(r.shape[1], r.n, "result.one_row_per_sample") /\ Is(r.shape[2], r.nimf1, "second.one_slab_per_first_level_imf")
                 /\ Is(r.finite, 1, "result.finite")
      [] OTHER -> Bad("unknown record kind")
=============================================================================
