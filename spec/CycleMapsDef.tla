---------------------------- MODULE CycleMapsDef ----------------------------
(***************************************************************************)
(* Set-theoretic definition of the four index levels of emd's cycle        *)
(* analysis and of the eighteen maps / projections between them            *)
(* (emd._cycles_support.map_* / project_*, emd.cycles.get_subset_vector,   *)
(* get_chain_vector).                                                      *)
(*                                                                         *)
(*   samples  1..N      cv[s]  = 0-based cycle label of sample s, or -1    *)
(*   cycles   0..K-1    sel[c+1] = TRUE iff cycle c is selected            *)
(*   subset   0..S-1    the selected cycles numbered in order              *)
(*   chains   0..H-1    maximal runs of consecutively numbered selected    *)
(*                      cycles, numbered in order                          *)
(*                                                                         *)
(* All index VALUES are 0-based (as in the code); TLA+ sequences holding   *)
(* them are indexed from 1.  "None" is represented by -1.                  *)
(***************************************************************************)
EXTENDS Integers, Sequences, FiniteSets, TLC

None == -1
Missing == -1       \* projections: "no value" (NaN in the code); real values are >= 10

SetMax(S) == CHOOSE x \in S : \A y \in S : x >= y
SetMin(S) == CHOOSE x \in S : \A y \in S : x <= y
RECURSIVE SortedSeq(_)
SortedSeq(S) == IF S = {} THEN <<>> ELSE LET m == SetMin(S) IN <<m>> \o SortedSeq(S \ {m})

NSamples(cv) == Len(cv)
NCycles(cv) == IF \A s \in 1..Len(cv) : cv[s] = -1 THEN 0 ELSE SetMax({cv[s] : s \in 1..Len(cv)}) + 1

\* subset vector: per cycle its subset index or -1           (get_subset_vector)
SubsetVect(sel) == [c \in 1..Len(sel) |-> IF sel[c] THEN Cardinality({d \in 1..(c-1) : sel[d]}) ELSE -1]
NSubset(sel) == Cardinality({c \in 1..Len(sel) : sel[c]})
\* the (0-based) cycle holding subset-cycle j
CycleOfSubset(sel, j) == (CHOOSE c \in 1..Len(sel) : SubsetVect(sel)[c] = j) - 1
\* chain vector: per subset-cycle its chain index             (get_chain_vector)
ChainVect(sel) ==
    LET S == NSubset(sel)
        cyc == [j \in 0..(S-1) |-> CycleOfSubset(sel, j)]
    IN  [j1 \in 1..S |-> Cardinality({k \in 1..(j1-1) : cyc[k] # cyc[k-1] + 1})]
NChains(sel) == IF NSubset(sel) = 0 THEN 0 ELSE ChainVect(sel)[NSubset(sel)] + 1

---------------------------------------------------------------------------
(* The twelve maps.  Set-valued maps return sets of 0-based indices.       *)

SampleToCycle(cv, s) == cv[s + 1]                                  \* -1 = None
CycleToSamples(cv, c) == {s \in 0..(Len(cv)-1) : cv[s + 1] = c}
CycleToSubset(sel, c) == SubsetVect(sel)[c + 1]                    \* -1 = None
SubsetToCycle(sel, j) == {CycleOfSubset(sel, j)}
SubsetToSamples(cv, sel, j) == CycleToSamples(cv, CycleOfSubset(sel, j))
SampleToSubset(cv, sel, s) == IF cv[s + 1] = -1 THEN None ELSE CycleToSubset(sel, cv[s + 1])
SubsetToChain(sel, j) == ChainVect(sel)[j + 1]
ChainToSubset(sel, h) == {j \in 0..(NSubset(sel)-1) : ChainVect(sel)[j + 1] = h}
CycleToChain(sel, c) == IF CycleToSubset(sel, c) = None THEN None ELSE SubsetToChain(sel, CycleToSubset(sel, c))
ChainToCycles(sel, h) == {CycleOfSubset(sel, j) : j \in ChainToSubset(sel, h)}
ChainToSamples(cv, sel, h) == UNION {CycleToSamples(cv, c) : c \in ChainToCycles(sel, h)}
SampleToChain(cv, sel, s) == IF SampleToSubset(cv, sel, s) = None THEN None
                             ELSE SubsetToChain(sel, SampleToSubset(cv, sel, s))

(* The six projections: vals is a sequence with one value per source item. *)
ProjCyclesToSamples(vals, cv) == [s1 \in 1..Len(cv) |-> IF cv[s1] = -1 THEN Missing ELSE vals[cv[s1] + 1]]
ProjSubsetToCycles(vals, sel) == [c1 \in 1..Len(sel) |-> IF SubsetVect(sel)[c1] = -1 THEN Missing ELSE vals[SubsetVect(sel)[c1] + 1]]
ProjSubsetToSamples(vals, cv, sel) == [s1 \in 1..Len(cv) |-> LET j == SampleToSubset(cv, sel, s1 - 1) IN IF j = None THEN Missing ELSE vals[j + 1]]
ProjChainToSubset(vals, sel) == [j1 \in 1..NSubset(sel) |-> vals[ChainVect(sel)[j1] + 1]]
ProjChainToCycles(vals, sel) == [c1 \in 1..Len(sel) |-> LET h == CycleToChain(sel, c1 - 1) IN IF h = None THEN Missing ELSE vals[h + 1]]
ProjChainToSamples(vals, cv, sel) == [s1 \in 1..Len(cv) |-> LET h == SampleToChain(cv, sel, s1 - 1) IN IF h = None THEN Missing ELSE vals[h + 1]]
=============================================================================
