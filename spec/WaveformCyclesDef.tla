-------------------------- MODULE WaveformCyclesDef --------------------------
(***************************************************************************)
(* emd.cycles.get_cycle_vector_from_waveform (cycle_start 'peaks' or       *)
(* 'troughs') on integer waveforms: specification growth beyond the listed *)
(* properties (non-verdict leg of C12's check).                            *)
(*                                                                         *)
(* Unlike get_cycle_vector this routine numbers cycles from ONE and marks  *)
(* samples outside every cycle with ZERO: the j-th cycle (j >= 1) runs     *)
(* from the j-th extremum (inclusive) to the (j+1)-th (exclusive).         *)
(***************************************************************************)
EXTENDS Integers, Sequences, FiniteSets

Peaks(x) == {j \in 2..(Len(x) - 1) : x[j] > x[j-1] /\ x[j] > x[j+1]}       \* 1-based positions
Troughs(x) == {j \in 2..(Len(x) - 1) : x[j] < x[j-1] /\ x[j] < x[j+1]}
Marks(x, start) == IF start = "peaks" THEN Peaks(x) ELSE Troughs(x)
\* label of sample i (1-based): the number of marks at or before it, if a later mark exists; otherwise 0
Vector(x, start) ==
    LET M == Marks(x, start) IN
    [i \in 1..Len(x) |-> LET before == Cardinality({m \in M : m <= i}) IN
                          IF before >= 1 /\ \E m \in M : m > i THEN before ELSE 0]
\* AS IMPLEMENTED the loop over cycles always runs "number of PEAKS minus one" times, also when cycles start at troughs:
\* with fewer troughs than peaks it raises IndexError (-99 here), with more troughs the later cycles stay unlabelled,
\* and with at most one peak nothing is labelled at all.  (Recorded in DESIGN appendix B; Vector above is the intent.)
Impl(x, start) ==
    IF start = "peaks" THEN Vector(x, "peaks")
    ELSE LET K == (IF Cardinality(Peaks(x)) = 0 THEN 0 ELSE Cardinality(Peaks(x)) - 1) IN
         IF K >= 1 /\ Cardinality(Troughs(x)) < K + 1 THEN <<-99>>
         ELSE [i \in 1..Len(x) |-> LET v == Vector(x, "troughs")[i] IN IF v > K THEN 0 ELSE v]
NCyc(x, start) == IF Cardinality(Marks(x, start)) = 0 THEN 0 ELSE Cardinality(Marks(x, start)) - 1
=============================================================================
