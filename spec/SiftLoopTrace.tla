--------------------------- MODULE SiftLoopTrace ---------------------------
(***************************************************************************)
(* Leg C for C04 (and the extraction part of C01/C02): recorded executions *)
(* of the real emd.sift.get_next_imf validated against SiftLoop.           *)
(*                                                                         *)
(* One trace = one call.  Events (written by harness/mbv/instrument.py at  *)
(* the points named):                                                      *)
(*   Begin(method, max_iters, step, energy)      on entry                  *)
(*   Top(k)          when the upper envelope of iteration k is requested   *)
(*   Env(k, ok, iter_ok)  after the lower envelope returned; ok = both     *)
(*                   envelopes exist; iter_ok = the iterate passed in      *)
(*                   equals previous iterate - step * previous mean;       *)
(*                   cfg_ok = both envelopes equal the ones re-built from  *)
(*                   the interpolation / extrema / padding options as they *)
(*                   were configured when the call was entered; few = the  *)
(*                   iterate has fewer than two maxima or minima (only     *)
(*                   then may an envelope be missing)                      *)
(*   Stop(k, fired, indep, near)  after the stop function returned; indep  *)
(*                   = the harness's own evaluation of the documented rule *)
(*   Energy(fired)   after _energy_difference returned                     *)
(*   Ret(flag, eq_full, eq_none, eq_step, eq_input)   on return            *)
(*   Raise(type)     on exception                                          *)
(* Many traces are validated in one TLC run (cursor tid / l).              *)
(***************************************************************************)
EXTENDS SiftLoop, Json, IOUtils

Traces == JsonDeserialize(IOEnv.TRACE_FILE)
VARIABLES tid, l, rejected
tvars == <<vars, tid, l, rejected>>

NT == Len(Traces)
Ev == Traces[tid][l]
Clause(name, cond) == IF cond THEN TRUE ELSE PrintT(<<"FAILCLAUSE", tid, l, name>>) /\ FALSE
IsEvent(e) == tid <= NT /\ l <= Len(Traces[tid]) /\ Ev.e = e
Consume == l' = l + 1 /\ UNCHANGED <<tid, rejected>>
DummyCfg == [method |-> "sd", maxIters |-> 1, step |-> D, energy |-> FALSE, dev |-> {}]

TInit == LoopInit /\ tid = 1 /\ l = 1 /\ c = DummyCfg /\ rejected = 0

TBegin == /\ IsEvent("Begin") /\ l = 1
          /\ c' = [method |-> Ev.method, maxIters |-> Ev.max_iters, step |-> Ev.step, energy |-> Ev.energy = 1, dev |-> {}]
          /\ Clause("begin.fresh", pc = "top" /\ niters = 0)
          /\ UNCHANGED lvars /\ Consume
TTop == /\ IsEvent("Top")
        /\ Top
        /\ Clause("top.not_beyond_limit", pc' = "env")
        /\ Clause("top.iteration_number", Ev.k = niters')
        /\ UNCHANGED c /\ Consume
TEnv == /\ IsEvent("Env")
        /\ Clause("env.iteration_number", Ev.k = niters)
        /\ Clause("env.iterate_is_previous_minus_step_mean", Ev.iter_ok = 1)
        /\ Clause("env.built_with_the_configured_options", Ev.cfg_ok = 1)
        /\ Clause("env.missing_only_when_the_iterate_has_too_few_extrema", Ev.ok = 1 \/ Ev.few = 1)
        /\ IF Ev.ok = 1 THEN EnvOK ELSE EnvMissing
        /\ UNCHANGED c /\ Consume
TStop == /\ IsEvent("Stop")
         /\ Clause("stop.iteration_number", Ev.k = niters)
         /\ Clause("stop.decision_matches_documented_rule", Ev.near = 1 \/ Ev.fired = Ev.indep)
         /\ Clause("stop.rule_admits_decision", ENABLED StopRule(Ev.fired = 1))
         /\ StopRule(Ev.fired = 1)
         /\ UNCHANGED c /\ Consume
TEnergy == /\ IsEvent("Energy")
           /\ EnergyTest(Ev.fired = 1)
           /\ UNCHANGED c /\ Consume
\* return: the value is the iterate the control flow dictates, the flag is the model's
TRet == /\ IsEvent("Ret")
        /\ Clause("ret.in_return_state", pc = "ret")
        /\ Clause("ret.flag", (Ev.flag = 1) = flag)
        /\ Clause("ret.stop_returns_iterate_minus_full_mean", stopAt > 0 => Ev.eq_full = 1)
        /\ Clause("ret.missing_returns_iterate_unchanged", missAt > 0 => Ev.eq_none = 1)
        /\ Clause("ret.first_missing_returns_input", missAt = 1 => Ev.eq_input = 1)
        /\ Clause("ret.iterations_bounded", niters <= c.maxIters + 1)
        /\ Clause("ret.fixed_count", (c.method = "fixed" /\ stopAt > 0) => niters = c.maxIters)
        /\ UNCHANGED vars /\ Consume
\* an input that is not a single signal is rejected (ValueError from the layout checks, before the loop is entered):
\* C19's matter, accepted here - for a valid layout the same exception is NOT accepted
InputRejected == l = 2 /\ Ev.type = "ValueError" /\ niters = 0 /\ Traces[tid][1].valid_layout = 0
TRejectInput == /\ IsEvent("Raise") /\ InputRejected /\ pc = "top"
                /\ pc' = "raised" /\ UNCHANGED <<niters, proto, flag, stopAt, missAt, fired, evald, efired, c>> /\ Consume
TRaise == /\ IsEvent("Raise") /\ ~InputRejected
          /\ Clause("raise.documented_error", Ev.type = "EMDSiftCovergeError")
          /\ Top
          /\ Clause("raise.only_beyond_limit", pc' = "raised")
          /\ UNCHANGED c /\ Consume
TSteps == TBegin \/ TTop \/ TEnv \/ TStop \/ TEnergy \/ TRet \/ TRaise \/ TRejectInput

\* trace finished: go to the next one (fresh loop state)
NextTrace == /\ tid <= NT /\ l = Len(Traces[tid]) + 1
             /\ Clause("end.call_finished", pc \in {"ret", "raised"})
             /\ tid' = tid + 1 /\ l' = 1 /\ c' = DummyCfg /\ UNCHANGED rejected
             /\ pc' = "top" /\ niters' = 0 /\ proto' = <<D>> /\ flag' = TRUE /\ stopAt' = 0 /\ missAt' = 0
             /\ fired' = {} /\ evald' = {} /\ efired' = "n/a"
\* no action of the specification explains the next event: report and carry on with the next trace
Reject == /\ tid <= NT /\ ~ENABLED (TSteps \/ NextTrace)
          /\ PrintT(<<"REJECTED", tid, l>>)
          /\ rejected' = rejected + 1
          /\ tid' = tid + 1 /\ l' = 1 /\ c' = DummyCfg
          /\ pc' = "top" /\ niters' = 0 /\ proto' = <<D>> /\ flag' = TRUE /\ stopAt' = 0 /\ missAt' = 0
          /\ fired' = {} /\ evald' = {} /\ efired' = "n/a"
\* all traces consumed: print the summary line the harness waits for
Finish == /\ tid = NT + 1 /\ l = 1
          /\ PrintT(<<"TRACESUMMARY", NT, rejected>>)
          /\ l' = 2 /\ UNCHANGED <<vars, tid, rejected>>
TNext == TSteps \/ NextTrace \/ Reject \/ Finish
TraceSpec == TInit /\ [][TNext]_tvars
=============================================================================
