----------------------------- MODULE EnsembleRec -----------------------------
(* Legs B/C for C08: one record per real ensemble_sift / complete_ensemble_sift run (scripted or  *)
(* real pool).  ids[j] = identity of the noise realisation member j was sifted with (equal ids <=> *)
(* bit-identical noise), as traced inside the worker processes.  Any job -> process map is        *)
(* accepted; only the VALUES are constrained (Ensemble!DistinctNoise, ResultIsMean).               *)
EXTENDS Integers, Sequences, FiniteSets, TLC, Json, IOUtils

Recs == JsonDeserialize(IOEnv.RECS_FILE)
VARIABLE ri
NB == 64
RInit == ri \in {-b : b \in 1..NB}
RNext == \/ ri < 0 /\ ri' \in {i \in 1..Len(Recs) : i % NB = (-ri) % NB}
         \/ ri > 0 /\ UNCHANGED ri
Bad(c) == PrintT(<<"BADREC", ri, c>>)
Is(got, want, c) == IF got = want THEN TRUE ELSE Bad(c)
Ok(cond, c) == IF cond THEN TRUE ELSE Bad(c)

Distinct(q) == Cardinality({q[j] : j \in 1..Len(q)}) = Len(q)
RecOK == ri > 0 =>
    LET r == Recs[ri] IN
    IF r.kind = "layers" THEN      \* complete ensemble sift, layer by layer (every layer averages fresh member decompositions)
        /\ Is(r.raised, 0, "run.completed")
        /\ (r.raised = 0 =>
            /\ Is(r.nlayers_traced, r.ncols, "layers.one_round_of_members_per_component")
            /\ Ok(\A k \in 1..Len(r.ids) : Len(r.ids[k]) = r.nens /\ Distinct(r.ids[k]), "layers.noise_distinct_per_member")
            /\ Ok(\A k \in 1..Len(r.neg_ok) : r.neg_ok[k] = 1, "layers.flip_uses_negated_noise")
            /\ Ok(\A k \in 1..Len(r.mean_ok) : r.mean_ok[k] = 1, "layers.component_is_mean_over_members")
            /\ Ok(\A k \in 1..Len(r.uncorr) : r.uncorr[k] = 1, "layers.noise_realisations_independent"))
    ELSE
    /\ Is(r.raised, 0, "run.completed")
    /\ (r.raised = 0 =>
        /\ Is(Len(r.ids), r.nens, "members.one_noise_per_member")
        /\ IF r.level = 0
           THEN Is(r.zero_equal, 1, "zero_noise.equals_classic_sift")
           ELSE /\ Ok(Cardinality({r.ids[j] : j \in 1..Len(r.ids)}) = Len(r.ids), "noise.distinct_per_member")
                /\ Ok(\A j \in 1..Len(r.neg_ok) : r.neg_ok[j] = 1, "flip.second_pass_uses_negated_noise")
                /\ Ok(\A j \in 1..Len(r.nonzero) : r.nonzero[j] = 1, "noise.actually_added")
                /\ Is(r.uncorrelated, 1, "noise.realisations_independent_of_each_other")
        /\ Is(r.mean_ok, 1, "result.is_mean_over_members"))
=============================================================================
