---------------------------- MODULE CycleStatsDef ----------------------------
(***************************************************************************)
(* Per-cycle statistics, projection back to samples, phase alignment and   *)
(* phase binning (emd.cycles.get_cycle_stat, phase_align, bin_by_phase).   *)
(* lab[i] = cycle label of sample i (0,1,2,...; -1 = no cycle; the samples *)
(* of a label need NOT be contiguous).                                     *)
(***************************************************************************)
EXTENDS Integers, Sequences, FiniteSets, TLC

Missing == -1000000
SetMin(S) == CHOOSE m \in S : \A o \in S : m <= o
SetMax(S) == CHOOSE m \in S : \A o \in S : m >= o
RECURSIVE SumOver(_, _)
SumOver(S, vec) == IF S = {} THEN 0 ELSE LET a == SetMin(S) IN vec[a] + SumOver(S \ {a}, vec)

NCyc(lab) == IF \A i \in 1..Len(lab) : lab[i] < 0 THEN 0 ELSE SetMax({lab[i] : i \in 1..Len(lab)}) + 1
SamplesOf(lab, c) == {i \in 1..Len(lab) : lab[i] = c}
F(f, v, S) == CASE f = "sum" -> SumOver(S, v)
                [] f = "len" -> Cardinality(S)
                [] f = "max" -> SetMax({v[i] : i \in S})
                [] f = "min" -> SetMin({v[i] : i \in S})
                [] f = "first" -> v[SetMin(S)]
                [] f = "last" -> v[SetMax(S)]
                [] f = "range" -> SetMax({v[i] : i \in S}) - SetMin({v[i] : i \in S})
                [] f = "mean_times_len" -> SumOver(S, v)
\* the statistic of each cycle: the function applied to PRECISELY the samples carrying that label
Stat(lab, v, f) == [c1 \in 1..NCyc(lab) |-> F(f, v, SamplesOf(lab, c1 - 1))]
\* ... and its projection back to samples: constant within each cycle, missing elsewhere
ToSamples(stat, lab) == [i \in 1..Len(lab) |-> IF lab[i] >= 0 THEN stat[lab[i] + 1] ELSE Missing]

\* phase binning on doubled lattice units: bin b = [e2[b], e2[b+1]) ; the mean of each non-empty bin as <<sum, count>>
BinOf2(ph2, e2) == IF \E b \in 1..(Len(e2) - 1) : e2[b] <= ph2 /\ ph2 < e2[b + 1]
                   THEN CHOOSE b \in 1..(Len(e2) - 1) : e2[b] <= ph2 /\ ph2 < e2[b + 1] ELSE 0
BinByPhase(phi2, x, e2) == [b \in 1..(Len(e2) - 1) |->
                              LET S == {i \in 1..Len(phi2) : BinOf2(phi2[i], e2) = b} IN <<SumOver(S, x), Cardinality(S)>>]
\* phase alignment of a quantity that is LINEAR in phase, x = a*phi + b: exactly the same function of the
\* phase grid, whatever the cycle's duration.  g2[j] = twice the j-th grid phase (lattice units)
AlignLinear2(a, b, g2) == [j \in 1..Len(g2) |-> a * g2[j] + 2 * b]
=============================================================================
