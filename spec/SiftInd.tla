------------------------------- MODULE SiftInd -------------------------------
(***************************************************************************)
(* The control skeleton of Sift.tla (outer loop of the classic sift) typed *)
(* for Apalache, for an ARBITRARY cap (max_imfs) - TLC explores caps up to *)
(* MaxLayers + 2 only.  IndInv is inductive and implies C03's CapRespected *)
(* ("never more components than the requested cap") and the column count   *)
(* bookkeeping for every cap >= 1 and for no cap (0), whatever the         *)
(* extractions return:                                                     *)
(*   apalache-mc check --init=Init    --inv=IndInv --length=0 SiftInd.tla  *)
(*   apalache-mc check --init=IndInit --inv=IndInv --length=1 SiftInd.tla  *)
(* Sift.tla refines this module (TLC property Sift!RefinesInd).            *)
(* (Termination of the outer loop is an assumption on the environment -    *)
(* some layer runs out of extrema - and is not claimed here.)              *)
(***************************************************************************)
EXTENDS Integers

VARIABLES
    \* @type: Int;
    cap,
    \* @type: Str;
    pc,
    \* @type: Int;
    layer,
    \* @type: Int;
    ncols,
    \* @type: Bool;
    cont

CInit == cap \in Nat
Init == CInit /\ pc = "extract" /\ layer = 0 /\ ncols = 0 /\ cont = TRUE

Extract(o) == /\ pc = "extract"
              /\ IF o = "raise" THEN pc' = "raised" /\ UNCHANGED cont
                 ELSE pc' = "append" /\ cont' = (o = "imf")
              /\ UNCHANGED <<cap, layer, ncols>>
AppendRecompute == /\ pc = "append" /\ ncols' = ncols + 1 /\ layer' = layer + 1 /\ pc' = "captest"
                   /\ UNCHANGED <<cap, cont>>
CapTest == /\ pc = "captest"
           /\ cont' = (IF cap # 0 /\ layer = cap THEN FALSE ELSE cont)
           /\ pc' = "threshtest" /\ UNCHANGED <<cap, layer, ncols>>
ThreshTest(small) == /\ pc = "threshtest"
                     /\ cont' = (IF small THEN FALSE ELSE cont)
                     /\ pc' = (IF cont' THEN "extract" ELSE "done")
                     /\ UNCHANGED <<cap, layer, ncols>>
Next == \/ \E o \in {"imf", "resid", "imf_energy", "raise"} : Extract(o)
        \/ AppendRecompute \/ CapTest
        \/ \E s \in BOOLEAN : ThreshTest(s)

CapRespected == cap # 0 => ncols <= cap
IndInv == /\ pc \in {"extract", "append", "captest", "threshtest", "done", "raised"}
          /\ cap >= 0 /\ layer >= 0 /\ ncols = layer
          /\ cap # 0 => layer <= cap
          \* another extraction is only started (or its result appended) while the cap has not been reached
          /\ (cap # 0 /\ pc \in {"extract", "append"}) => layer < cap
          /\ (cap # 0 /\ pc = "threshtest" /\ layer = cap) => cont = FALSE
          /\ pc = "extract" => cont = TRUE
          /\ CapRespected
IndInit == /\ cap \in Int /\ layer \in Int /\ ncols \in Int /\ cont \in BOOLEAN
           /\ pc \in {"extract", "append", "captest", "threshtest", "done", "raised"}
           /\ IndInv
=============================================================================
