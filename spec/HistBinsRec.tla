----------------------------- MODULE HistBinsRec -----------------------------
EXTENDS Integers, Sequences, TLC, Json, IOUtils
Recs == JsonDeserialize(IOEnv.RECS_FILE)
VARIABLE ri
NB == 64
RInit == ri \in {-b : b \in 1..NB}
RNext == \/ ri < 0 /\ ri' \in {i \in 1..Len(Recs) : i % NB = (-ri) % NB}
         \/ ri > 0 /\ UNCHANGED ri
Bad(c) == PrintT(<<"BADREC", ri, c>>)
Is(got, want, c) == IF got = want THEN TRUE ELSE Bad(c)
RECURSIVE ISqrt(_, _)
ISqrt(k, r) == IF (r + 1) * (r + 1) > k THEN r ELSE ISqrt(k, r + 1)
\* r.e2 / r.c2: the returned edges / centres times 2 n (integers when the routine is right)
RecOK == ri > 0 =>
    LET r == Recs[ri]
        n == IF r.nbins = 0 THEN ISqrt(r.nsamples, 0) ELSE r.nbins
    IN  /\ Is(r.n_out, n, "define_hist_bins.number_of_bins")
        /\ Is(r.e2, [b1 \in 1..(n + 1) |-> 2 * (n * r.lo + (b1 - 1) * (r.hi - r.lo))], "define_hist_bins.edges")
        /\ Is(r.c2, [b1 \in 1..n |-> 2 * n * r.lo + (2 * b1 - 1) * (r.hi - r.lo)], "define_hist_bins.centres")
=============================================================================
