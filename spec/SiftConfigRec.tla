---------------------------- MODULE SiftConfigRec ----------------------------
(* Behavioural clauses of C18 (numeric equality only): the default configuration of each variant, *)
(* unpacked into it, reproduces the call without options; get_func() - before and after a YAML     *)
(* round trip by each route - behaves like the original call.                                      *)
EXTENDS Integers, Sequences, FiniteSets, TLC, Json, IOUtils
Recs == JsonDeserialize(IOEnv.RECS_FILE)
VARIABLE ri
NB == 64
RInit == ri \in {-b : b \in 1..NB}
RNext == \/ ri < 0 /\ ri' \in {i \in 1..Len(Recs) : i % NB = (-ri) % NB}
         \/ ri > 0 /\ UNCHANGED ri
Bad(c) == PrintT(<<"BADREC", ri, c>>)
Is(got, want, c) == IF got = want THEN TRUE ELSE Bad(c)
RecOK == ri > 0 =>
    LET r == Recs[ri] IN
    CASE r.kind = "defaults" -> Is(r.equal, 1, "defaults.unpacked_config_reproduces_plain_call")
      [] r.kind = "func" -> /\ Is(r.type_ok, 1, "roundtrip.sift_type_preserved")
                            /\ Is(r.equal, 1, "get_func.behaves_like_original_call")
      [] r.kind = "fresh" -> Is(r.equal, 1, "defaults.fresh_config_is_unaffected_by_edits_to_another")
      [] OTHER -> Bad("unknown record kind")
=============================================================================
