------------------------------ MODULE CycleStats ------------------------------
(* Leg A for C14: theorems about CycleStatsDef over every label vector (gaps and non-contiguous *)
(* labels anywhere) of the enumerated domain.                                                   *)
EXTENDS CycleStatsDef
CONSTANTS MaxLen, Vals
VARIABLES lab, v, full
vars == <<lab, v, full>>
LabelsOK(l) == LET S == {l[i] : i \in 1..Len(l)} \ {-1} IN S = 0..(Cardinality(S) - 1)
Init == lab \in {l \in UNION {[1..n -> -1..2] : n \in 1..MaxLen} : LabelsOK(l)} /\ v = <<>> /\ full = FALSE
Expand == ~full /\ full' = TRUE /\ v' \in [1..Len(lab) -> Vals] /\ UNCHANGED lab
Next == Expand \/ (full /\ UNCHANGED vars)
Funcs == {"sum", "len", "max", "min", "first", "last", "range"}
K == NCyc(lab)
\* projection: constant within each cycle, missing exactly off-cycle
ProjectionShape == full => \A f \in Funcs :
    LET p == ToSamples(Stat(lab, v, f), lab) IN
    /\ \A i, j \in 1..Len(lab) : (lab[i] = lab[j] /\ lab[i] >= 0) => p[i] = p[j]
    /\ \A i \in 1..Len(lab) : (p[i] = Missing) <=> (lab[i] < 0)
\* sums over cycles account for exactly the labelled samples, lengths partition them
Conservation == full =>
    /\ SumOver(1..K, Stat(lab, v, "sum")) = SumOver({i \in 1..Len(lab) : lab[i] >= 0}, v)
    /\ SumOver(1..K, Stat(lab, v, "len")) = Cardinality({i \in 1..Len(lab) : lab[i] >= 0})
\* a sample outside a cycle never influences that cycle's statistic
Locality == full => \A f \in Funcs : \A i \in 1..Len(lab) : \A w \in Vals :
    LET v2 == [v EXCEPT ![i] = w] IN
    \A c1 \in 1..K : (lab[i] # c1 - 1) => Stat(lab, v2, f)[c1] = Stat(lab, v, f)[c1]
W_NonContiguous == ~(full /\ \E c \in 0..(K - 1) : SamplesOf(lab, c) # SetMin(SamplesOf(lab, c))..SetMax(SamplesOf(lab, c)))
=============================================================================
