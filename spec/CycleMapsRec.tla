---------------------------- MODULE CycleMapsRec ----------------------------
(* Legs B/C for C16: one record per enumerated structure holding the outputs of all eighteen *)
(* real map_* / project_* functions on every valid index; validated against CycleMapsDef.    *)
EXTENDS CycleMapsDef, Json, IOUtils

Recs == JsonDeserialize(IOEnv.RECS_FILE)
\* One record = one state.  TLC evaluates invariants of INITIAL states in a single thread, so the
\* initial states are NB bucket seeds (ri < 0) and one Next step fans out to the records of the bucket.
VARIABLE ri
NB == 64
RInit == ri \in {-b : b \in 1..NB}
RNext == \/ ri < 0 /\ ri' \in {i \in 1..Len(Recs) : i % NB = (-ri) % NB}
         \/ ri > 0 /\ UNCHANGED ri
Bad(c) == PrintT(<<"BADREC", ri, c>>)
Is(got, want, c) == IF got = want THEN TRUE ELSE Bad(c)

RecOK == ri > 0 =>
    LET r == Recs[ri]
        cv == r.cv
        sel == [c \in 1..Len(r.sel) |-> r.sel[c] = 1]
        N == Len(cv)   K == Len(sel)   S == NSubset(sel)   H == NChains(sel)
        cvals == [c1 \in 1..K |-> 1000 + c1 - 1]
        svals == [j1 \in 1..S |-> 10 + j1 - 1]
        hvals == [h1 \in 1..H |-> 100 + h1 - 1]
    IN
    /\ Is(r.subset_vect, SubsetVect(sel), "get_subset_vector")
    /\ Is(r.chain_vect, ChainVect(sel), "get_chain_vector")
    /\ Is(r.s2c, [s1 \in 1..N |-> SampleToCycle(cv, s1 - 1)], "map_sample_to_cycle")
    /\ Is(r.c2s, [c1 \in 1..K |-> SortedSeq(CycleToSamples(cv, c1 - 1))], "map_cycle_to_samples")
    /\ Is(r.c2sub, [c1 \in 1..K |-> CycleToSubset(sel, c1 - 1)], "map_cycle_to_subset")
    /\ Is(r.sub2c, [j1 \in 1..S |-> SortedSeq(SubsetToCycle(sel, j1 - 1))], "map_subset_to_cycle")
    /\ Is(r.sub2s, [j1 \in 1..S |-> SortedSeq(SubsetToSamples(cv, sel, j1 - 1))], "map_subset_to_sample")
    /\ Is(r.s2sub, [s1 \in 1..N |-> SampleToSubset(cv, sel, s1 - 1)], "map_sample_to_subset")
    /\ Is(r.sub2ch, [j1 \in 1..S |-> SubsetToChain(sel, j1 - 1)], "map_subset_to_chain")
    /\ Is(r.ch2sub, [h1 \in 1..H |-> SortedSeq(ChainToSubset(sel, h1 - 1))], "map_chain_to_subset")
    /\ Is(r.c2ch, [c1 \in 1..K |-> CycleToChain(sel, c1 - 1)], "map_cycle_to_chain")
    /\ Is(r.ch2c, [h1 \in 1..H |-> SortedSeq(ChainToCycles(sel, h1 - 1))], "map_chain_to_cycle")
    /\ Is(r.ch2s, [h1 \in 1..H |-> SortedSeq(ChainToSamples(cv, sel, h1 - 1))], "map_chain_to_samples")
    /\ Is(r.s2ch, [s1 \in 1..N |-> SampleToChain(cv, sel, s1 - 1)], "map_sample_to_chain")
    /\ Is(r.pc2s, ProjCyclesToSamples(cvals, cv), "project_cycles_to_samples")
    /\ Is(r.psub2c, ProjSubsetToCycles(svals, sel), "project_subset_to_cycles")
    /\ Is(r.psub2s, ProjSubsetToSamples(svals, cv, sel), "project_subset_to_samples")
    /\ Is(r.pch2sub, ProjChainToSubset(hvals, sel), "project_chain_to_subset")
    /\ Is(r.pch2c, ProjChainToCycles(hvals, sel), "project_chain_to_cycles")
    /\ Is(r.pch2s, ProjChainToSamples(hvals, cv, sel), "project_chain_to_samples")
=============================================================================
