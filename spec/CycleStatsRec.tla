---------------------------- MODULE CycleStatsRec ----------------------------
(* Legs B/C for C14: recorded calls of get_cycle_stat (incl. out='samples'), phase_align and bin_by_phase. *)
EXTENDS CycleStatsDef, Json, IOUtils
Recs == JsonDeserialize(IOEnv.RECS_FILE)
VARIABLE ri
NB == 64
RInit == ri \in {-b : b \in 1..NB}
RNext == \/ ri < 0 /\ ri' \in {i \in 1..Len(Recs) : i % NB = (-ri) % NB}
         \/ ri > 0 /\ UNCHANGED ri
Bad(c) == PrintT(<<"BADREC", ri, c>>)
Is(got, want, c) == IF got = want THEN TRUE ELSE Bad(c)
Ok(cond, c) == IF cond THEN TRUE ELSE Bad(c)
RecOK == ri > 0 =>
    LET r == Recs[ri] IN
    CASE r.kind = "stat" ->
            LET want == Stat(r.lab, r.v, r.f) IN
            /\ Is(r.exact, 1, "get_cycle_stat.integral_result")
            /\ Is(r.out, want, "get_cycle_stat.function_of_exactly_the_cycles_samples")
            /\ Is(r.proj, ToSamples(want, r.lab), "get_cycle_stat.projection_to_samples")
      [] r.kind = "bin" ->
            LET want == BinByPhase(r.phi2, r.x, r.e2) IN
            /\ Is(Len(r.out60), Len(r.e2) - 1, "bin_by_phase.one_value_per_bin")
            /\ Ok(\A b \in 1..Len(want) : IF want[b][2] = 0 THEN r.out60[b] = Missing
                                           ELSE r.out60[b] * want[b][2] = 60 * want[b][1], "bin_by_phase.every_bin_with_samples_holds_their_mean")
      [] r.kind = "align" ->
            /\ Is(r.exact, 1, "phase_align.exact_for_linear_quantities")
            /\ Is(r.out2, AlignLinear2(r.a, r.b, r.g2), "phase_align.same_function_of_phase_for_every_cycle_length")
      [] r.kind = "alignf" ->      \* smooth non-linear function of phase: within the interpolation-error bound (harness)
            Is(r.within_bound, 1, "phase_align.within_interpolation_error")
      [] r.kind = "forms" ->       \* the cycles argument as label vector / container / iterator (created with any mode)
            /\ Is(r.ref_raised, 0, "cycles_argument.container_form_is_accepted")
            /\ IF r.form = "value"
               THEN Is(r.same, 1, "get_cycle_stat.augmented_statistic_is_the_function_over_the_augmented_samples")
               ELSE Is(r.same, 1, "cycles_argument.mode_argument_governs_for_every_form")
      [] OTHER -> Bad("unknown record kind")
=============================================================================
