---------------------------- MODULE SiftLoopInd ----------------------------
(***************************************************************************)
(* The control skeleton of SiftLoop.tla (one single-IMF extraction) typed  *)
(* for Apalache, for an ARBITRARY iteration limit maxIters >= 1 - TLC      *)
(* explores SiftLoop for limits 1..6 only.  Two unbounded results:         *)
(*                                                                         *)
(*  (1) IndInv is inductive and implies C04's Bounded, NeverUnconverged,   *)
(*      RaiseOnlyAtLimit and FixedCount for every limit:                   *)
(*        apalache-mc check --init=Init    --inv=IndInv --length=0         *)
(*        apalache-mc check --init=IndInit --inv=IndInv --length=1         *)
(*  (2) Variant, a ranking function into the naturals, strictly decreases  *)
(*      on every step from a state satisfying IndInv (an action invariant) *)
(*        apalache-mc check --init=IndInit --inv=VariantDecreases --length=1 *)
(*      hence every extraction ends after at most 4 * (maxIters + 2) + 3 steps *)
(*      whatever the numeric kernels answer: "never loops".                *)
(*                                                                         *)
(* SiftLoop.tla refines this module (TLC property SiftLoop!RefinesInd,     *)
(* with maxIters, method, energy read from the configuration record).      *)
(***************************************************************************)
EXTENDS Integers

\* the configuration of the call: variables that never change (so that SiftLoop can substitute fields of its
\* configuration record for them)
VARIABLES
    \* @type: Int;
    maxIters,
    \* @type: Str;
    method,
    \* @type: Bool;
    energy,
    \* @type: Str;
    pc,
    \* @type: Int;
    niters,
    \* @type: Bool;
    flag,
    \* @type: Int;
    stopAt,
    \* @type: Int;
    missAt

CInit == maxIters \in Nat /\ maxIters >= 1 /\ method \in {"sd", "rilling", "fixed"} /\ energy \in BOOLEAN

Init == CInit /\ pc = "top" /\ niters = 0 /\ flag = TRUE /\ stopAt = 0 /\ missAt = 0

Top == /\ pc = "top"
       /\ IF method # "fixed" /\ niters > maxIters
          THEN pc' = "raised" /\ UNCHANGED <<niters, flag, stopAt, missAt>>
          ELSE pc' = "env" /\ niters' = niters + 1 /\ UNCHANGED <<flag, stopAt, missAt>>
EnvOK == pc = "env" /\ pc' = "stop" /\ UNCHANGED <<niters, flag, stopAt, missAt>>
EnvMissing == /\ pc = "env" /\ missAt' = niters
              /\ flag' = (IF niters = 1 THEN FALSE ELSE flag)
              /\ pc' = (IF energy THEN "energy" ELSE "ret")
              /\ UNCHANGED <<niters, stopAt>>
StopRule(fire) == /\ pc = "stop"
                  /\ (method = "fixed" => fire = (niters = maxIters))
                  /\ IF fire THEN stopAt' = niters /\ pc' = (IF energy THEN "energy" ELSE "ret")
                             ELSE pc' = "top" /\ UNCHANGED stopAt
                  /\ UNCHANGED <<niters, flag, missAt>>
EnergyTest(fire) == /\ pc = "energy" /\ pc' = "ret"
                    /\ flag' = (IF fire THEN FALSE ELSE flag)
                    /\ UNCHANGED <<niters, stopAt, missAt>>
Step == Top \/ EnvOK \/ EnvMissing \/ (\E f \in BOOLEAN : StopRule(f)) \/ (\E f \in BOOLEAN : EnergyTest(f))
Next == Step /\ UNCHANGED <<maxIters, method, energy>>

\* ---- C04 at the level of the skeleton, for every iteration limit
Bounded == niters <= maxIters + 1
NeverUnconverged == pc = "ret" => (stopAt > 0 \/ missAt > 0)
RaiseOnlyAtLimit == pc = "raised" => (method # "fixed" /\ niters = maxIters + 1 /\ stopAt = 0 /\ missAt = 0)
FixedCount == (method = "fixed" /\ pc = "ret" /\ stopAt > 0) => niters = maxIters

IndInv == /\ pc \in {"top", "env", "stop", "energy", "ret", "raised"}
          /\ niters >= 0 /\ niters <= maxIters + 1
          /\ stopAt >= 0 /\ missAt >= 0
          /\ pc \in {"env", "stop", "energy", "ret"} => niters >= 1
          /\ pc \in {"top", "env", "stop", "raised"} => (stopAt = 0 /\ missAt = 0)
          /\ pc \in {"energy", "ret"} => ((stopAt = niters /\ missAt = 0) \/ (stopAt = 0 /\ missAt = niters))
          /\ (method = "fixed" /\ pc = "top") => niters < maxIters
          /\ (method = "fixed" /\ pc \in {"env", "stop"}) => niters <= maxIters
          /\ (method = "fixed" /\ stopAt > 0) => stopAt = maxIters
          /\ pc = "raised" => (method # "fixed" /\ niters = maxIters + 1)
          /\ Bounded /\ NeverUnconverged /\ RaiseOnlyAtLimit /\ FixedCount

IndInit == /\ CInit
           /\ pc \in {"top", "env", "stop", "energy", "ret", "raised"}
           /\ niters \in Int /\ flag \in BOOLEAN /\ stopAt \in Int /\ missAt \in Int
           /\ IndInv

\* ---- termination: a ranking function
Rank(p) == CASE p = "env" -> 3 [] p = "stop" -> 2 [] p = "top" -> 1 [] OTHER -> 0
Variant(p, n) == IF p \in {"ret", "raised"} THEN 0 ELSE 4 * (maxIters + 2 - n) + Rank(p)
VariantDecreases == /\ Variant(pc, niters) >= 0
                    /\ Variant(pc', niters') < Variant(pc, niters)
=============================================================================
