-------------------------- MODULE WaveformCyclesRec --------------------------
EXTENDS WaveformCyclesDef, TLC, Json, IOUtils
Recs == JsonDeserialize(IOEnv.RECS_FILE)
VARIABLE ri
NB == 64
RInit == ri \in {-b : b \in 1..NB}
RNext == \/ ri < 0 /\ ri' \in {i \in 1..Len(Recs) : i % NB = (-ri) % NB}
         \/ ri > 0 /\ UNCHANGED ri
Bad(c) == PrintT(<<"BADREC", ri, c>>)
Is(got, want, c) == IF got = want THEN TRUE ELSE Bad(c)
RecOK == ri > 0 => LET r == Recs[ri] IN Is(r.out, Impl(r.x, r.start), "get_cycle_vector_from_waveform")
=============================================================================
