---------------------------- MODULE StopRulesRec ----------------------------
(***************************************************************************)
(* Records of real calls to sd_stop / rilling_stop / fixed_stop /          *)
(* energy_stop (and the energy_thresh exit of get_next_imf) on data        *)
(* whose summary (counts, integer sums) is exact, against StopRulesDef.    *)
(***************************************************************************)
EXTENDS StopRulesDef, Sequences, TLC, Json, IOUtils
VARIABLE ri
Recs == JsonDeserialize(IOEnv.RECS_FILE)
NB == 64
RInit == ri \in {-b : b \in 1..NB}
RNext == \/ ri < 0 /\ ri' \in {i \in 1..Len(Recs) : i % NB = (-ri) % NB}
         \/ ri > 0 /\ UNCHANGED ri
Bad(c) == PrintT(<<"BADREC", ri, c>>)
Ok(cond, c) == IF cond THEN TRUE ELSE Bad(c)
RecOK == ri > 0 =>
    LET r == Recs[ri] IN
    /\ Ok(r.raised = 0, "stop_rule.call_completes")
    /\ r.rule = "rilling" => Ok((r.fired = 1) <=> RillingStops(r.N, r.n1, r.n2, r.tp, r.tq), "rilling.stops_iff_fraction_within_tol_and_none_large")
    /\ r.rule = "sd" => Ok((r.fired = 1) <=> SdStops(r.num, r.den, r.tp, r.tq), "sd.stops_iff_ratio_below_threshold")
    /\ r.rule = "energy" => Ok((r.fired = 1) <=> EnergyStops(r.A, r.B, r.K), "energy.stops_iff_ratio_exceeds_threshold")
    /\ r.rule = "fixed" => Ok((r.fired = 1) <=> FixedStops(r.niters, r.maxit), "fixed.stops_iff_count_reached")
=============================================================================
