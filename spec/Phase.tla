-------------------------------- MODULE Phase --------------------------------
(* Leg A for C09: theorems of the lattice phase pipeline over every step sequence of the enumerated domain. *)
EXTENDS PhaseDef
CONSTANTS MaxLen, Steps, Starts
StepsFull == (0 - 5)..11
StepsSome == {0 - 3, 0, 1, 2, 3, 5, 7, 9, 11}
VARIABLES st, start, full
vars == <<st, start, full>>
Init == st \in [1..1 -> Steps] /\ start \in Starts /\ full = FALSE
Expand == ~full /\ full' = TRUE /\ st' \in {st \o s : s \in UNION {[1..n -> Steps] : n \in 0..(MaxLen - 2)}} /\ UNCHANGED start
Next == Expand \/ (full /\ UNCHANGED vars)
\* the true (unwrapped) lattice phase: start, then cumulative steps
P == CumPhase(st, start)
Kseq == P                                 \* the complex signal exp(i 2 pi P / M) only knows P modulo M
SmallSteps == \A t \in 1..Len(st) : st[t] > -H /\ st[t] < H
\* wrapped phase lies in [0, 2 pi)
WrapRange == full => \A jump \in {"ascending", "peak", "descending", "trough"} : \A sm \in BOOLEAN :
                 \A t \in 1..Len(P) : PhaseFromComplex(Kseq, sm, jump, TRUE)[t] \in 0..(M - 1)
\* unwrapping the wrapped angle recovers the phase up to a constant multiple of M, hence its derivative exactly
UnwrapRecovers == (full /\ SmallSteps) =>
    LET u == PhaseFromComplex(Kseq, FALSE, "peak", FALSE) IN
    /\ \A t \in 1..Len(P) : (u[t] - P[t]) % M = 0 /\ u[t] - P[t] = u[1] - P[1]
    /\ Grad2(u) = Grad2(P)
\* frequency -> phase -> frequency reproduces the profile up to two-sample averaging (exactly where it is constant)
RoundTrip == full =>
    LET g == Grad2(CumPhase(st, start))  n == Len(st) IN
    /\ \A t \in 2..(n - 1) : g[t] = st[t] + st[t + 1]
    /\ n >= 2 => (g[1] = 2 * st[2] /\ g[n] = 2 * st[n])
    /\ \A t \in 2..(n - 1) : st[t] = st[t + 1] => g[t] = 2 * st[t]
\* the quarter-cycle offsets differ by constants only
OffsetsConsistent == full =>
    LET u == PhaseFromComplex(Kseq, TRUE, "peak", FALSE) IN
    /\ PhaseFromComplex(Kseq, TRUE, "ascending", FALSE) = Shift(u, M \div 4)
    /\ PhaseFromComplex(Kseq, TRUE, "trough", FALSE) = Shift(u, H)
W_Wraps == ~(full /\ \E t \in 2..Len(P) : P[t] \div M # P[t - 1] \div M)
=============================================================================
