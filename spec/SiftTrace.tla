----------------------------- MODULE SiftTrace -----------------------------
(***************************************************************************)
(* Leg C for C01 / C03 (classic and masked sift): recorded executions of   *)
(* the real outer loops validated against the control skeleton of Sift.    *)
(*                                                                         *)
(* One trace = one top-level call.  Events:                                *)
(*   SBegin(variant, cap)            cap = 0 for "no cap"                  *)
(*   Ext(k, flag, kind, small, input_is_residual)   one per extraction:    *)
(*        kind in {"imf","resid","energy"};  small = sum|imf| < sift_thresh *)
(*        input_is_residual = the array handed to extraction k equals      *)
(*        X - sum of the previously returned components (bit-for-bit)      *)
(*   SRaise(type)                    the call raised                       *)
(*   Done(ncols, cols_are_returns, finite, complete, nmax, nmin, ndim)      *)
(* The token-map algebra of Sift.tla is bound to the code in Leg B; here   *)
(* the same actions are followed with the numeric facts supplied as        *)
(* harness observations.                                                   *)
(***************************************************************************)
EXTENDS Integers, Sequences, FiniteSets, TLC, Json, IOUtils

Traces == JsonDeserialize(IOEnv.TRACE_FILE)
VARIABLES tid, l, rejected,
          cap, layer, cont, reasons, lastKind, raised
vars == <<tid, l, rejected, cap, layer, cont, reasons, lastKind, raised>>

NT == Len(Traces)
Ev == Traces[tid][l]
Clause(name, cond) == IF cond THEN TRUE ELSE PrintT(<<"FAILCLAUSE", tid, l, name>>) /\ FALSE
IsEvent(e) == tid <= NT /\ l <= Len(Traces[tid]) /\ Ev.e = e
Fresh == cap' = 0 /\ layer' = 0 /\ cont' = TRUE /\ reasons' = {} /\ lastKind' = "none" /\ raised' = FALSE

TInit == tid = 1 /\ l = 1 /\ rejected = 0 /\ cap = 0 /\ layer = 0 /\ cont = TRUE /\ reasons = {} /\ lastKind = "none" /\ raised = FALSE

TBegin == /\ IsEvent("SBegin") /\ l = 1
          /\ cap' = Ev.cap
          /\ l' = l + 1 /\ UNCHANGED <<tid, rejected, layer, cont, reasons, lastKind, raised>>
\* Extract ; AppendRecompute ; CapTest ; ThreshTest of Sift.tla, in one step per recorded extraction
TExt == /\ IsEvent("Ext")
        /\ Clause("ext.only_while_continuing", cont /\ ~raised)
        /\ Clause("ext.layer_number", Ev.k = layer + 1)
        /\ Clause("ext.input_is_running_residual", Ev.input_is_residual = 1)
        /\ layer' = layer + 1
        /\ lastKind' = Ev.kind
        /\ LET r1 == reasons \cup (IF Ev.kind = "energy" THEN {"energy"} ELSE {})
               r2 == r1 \cup (IF cap # 0 /\ layer + 1 = cap THEN {"cap"} ELSE {})
               r3 == r2 \cup (IF Ev.small = 1 THEN {"thresh"} ELSE {})
           IN /\ reasons' = r3
              /\ cont' = ((Ev.flag = 1) /\ ~(cap # 0 /\ layer + 1 = cap) /\ ~(Ev.small = 1))
        /\ Clause("ext.flag_matches_kind", (Ev.flag = 1) = (Ev.kind = "imf"))
        /\ l' = l + 1 /\ UNCHANGED <<tid, rejected, cap, raised>>
TRaise == /\ IsEvent("SRaise")
          /\ Clause("raise.documented_error", Ev.type = "EMDSiftCovergeError")
          /\ raised' = TRUE
          /\ l' = l + 1 /\ UNCHANGED <<tid, rejected, cap, layer, cont, reasons, lastKind>>
CutShort == reasons \cap {"cap", "thresh", "energy"} # {}
TDone == /\ IsEvent("Done")
         /\ Clause("done.loop_had_stopped", ~cont /\ ~raised)
         /\ Clause("done.one_column_per_extraction", Ev.ncols = layer)
         /\ Clause("done.columns_are_the_extracted_components", Ev.cols_are_returns = 1)
         /\ Clause("done.samples_by_components_array", Ev.ndim = 2)
         /\ Clause("done.finite", Ev.finite = 1)
         /\ Clause("done.cap_respected", cap # 0 => Ev.ncols <= cap)
         /\ Clause("done.complete_unless_cut_short", ~CutShort => Ev.complete = 1)
         /\ Clause("done.natural_end_is_residual", ~CutShort => lastKind = "resid")
         /\ Clause("done.final_component_non_oscillatory", ~CutShort => (Ev.nmax < 2 \/ Ev.nmin < 2))
         /\ l' = l + 1 /\ UNCHANGED <<tid, rejected, cap, layer, cont, reasons, lastKind, raised>>
TSteps == TBegin \/ TExt \/ TRaise \/ TDone
NextTrace == /\ tid <= NT /\ l = Len(Traces[tid]) + 1
             /\ Clause("end.call_finished", Traces[tid][Len(Traces[tid])].e \in {"Done", "SRaise"})
             /\ tid' = tid + 1 /\ l' = 1 /\ UNCHANGED rejected /\ Fresh
Reject == /\ tid <= NT /\ ~ENABLED (TSteps \/ NextTrace)
          /\ PrintT(<<"REJECTED", tid, l>>)
          /\ rejected' = rejected + 1 /\ tid' = tid + 1 /\ l' = 1 /\ Fresh
Finish == /\ tid = NT + 1 /\ l = 1
          /\ PrintT(<<"TRACESUMMARY", NT, rejected>>)
          /\ l' = 2 /\ UNCHANGED <<tid, rejected, cap, layer, cont, reasons, lastKind, raised>>
TNext == TSteps \/ NextTrace \/ Reject \/ Finish
TraceSpec == TInit /\ [][TNext]_vars
=============================================================================
