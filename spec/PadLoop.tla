------------------------------ MODULE PadLoop ------------------------------
(***************************************************************************)
(* The "keep padding until the locations stretch beyond both edges" loop   *)
(* of emd.sift.get_padded_extrema as a state machine, for every np.pad     *)
(* mode a caller may put into loc_pad_opts - not only the default odd      *)
(* reflection that ExtremaDef!PadLoop (a terminating recursion) covers.    *)
(*                                                                         *)
(*   pad1 : the unconditional first padding                                *)
(*   loop : while max(locs) <= n-1 or min(locs) >= 0: pad again            *)
(*          Guard: a round that leaves the span [min, max] unchanged       *)
(*          raises ValueError (pc = "error") - without it the loop never   *)
(*          ends for modes that do not extrapolate (finding D22)           *)
(*   done : locations returned                                             *)
(*                                                                         *)
(* Locations are plain sample indices here (no parabolic refinement).      *)
(***************************************************************************)
EXTENDS Integers, Sequences, FiniteSets, TLC

CONSTANTS MaxN,      \* signal lengths 4..MaxN
          PadMax,    \* pad widths 1..PadMax (clamped to the number of extrema, as in the code)
          Types,     \* subset of {"odd", "even", "symmetric", "edge", "wrap"}
          Guard      \* TRUE: the no-progress check is present

VARIABLES n, l0, l, w, typ, pc, rounds
vars == <<n, l0, l, w, typ, pc, rounds>>

Min2(a, b) == IF a < b THEN a ELSE b
SeqMin(s) == CHOOSE x \in {s[i] : i \in 1..Len(s)} : \A j \in 1..Len(s) : x <= s[j]
SeqMax(s) == CHOOSE x \in {s[i] : i \in 1..Len(s)} : \A j \in 1..Len(s) : x >= s[j]
RECURSIVE Sorted(_)
Sorted(S) == IF S = {} THEN <<>> ELSE LET m == CHOOSE x \in S : \A y \in S : x <= y IN <<m>> \o Sorted(S \ {m})

\* one numpy pass (w <= Len(a) - 1 for the reflecting modes)
Once(t, a, k) ==
    LET L == Len(a) IN
    CASE t = "odd"       -> [i \in 1..k |-> 2 * a[1] - a[k + 2 - i]] \o a \o [i \in 1..k |-> 2 * a[L] - a[L - i]]
      [] t = "even"      -> [i \in 1..k |-> a[k + 2 - i]] \o a \o [i \in 1..k |-> a[L - i]]
      [] t = "symmetric" -> [i \in 1..k |-> a[k + 1 - i]] \o a \o [i \in 1..k |-> a[L + 1 - i]]
      [] t = "edge"      -> [i \in 1..k |-> a[1]] \o a \o [i \in 1..k |-> a[L]]
      [] t = "wrap"      -> [i \in 1..k |-> a[L - k + i]] \o a \o [i \in 1..k |-> a[i]]
\* numpy pads at most Len(a)-1 points per pass with 'reflect' (Len(a) with 'symmetric' / 'wrap'); the rest in a second pass
Pad(t, a, k) == IF t \in {"odd", "even"} /\ k > Len(a) - 1
                THEN Once(t, Once(t, a, Len(a) - 1), k - (Len(a) - 1))
                ELSE Once(t, a, k)

\* peaks are never adjacent and never at the first or last sample
PeakSets(m) == {S \in SUBSET (1..(m - 2)) : Cardinality(S) >= 2 /\ \A a, b \in S : a # b => (a - b > 1 \/ b - a > 1)}

Init == /\ n \in 4..MaxN
        /\ l0 \in {Sorted(S) : S \in PeakSets(n)}
        /\ l = l0
        /\ w \in 1..Min2(PadMax, Len(l0))
        /\ typ \in Types
        /\ pc = "pad1" /\ rounds = 0

NotCovered(s) == SeqMax(s) <= n - 1 \/ SeqMin(s) >= 0
FirstPad == /\ pc = "pad1"
            /\ l' = Pad(typ, l, w) /\ pc' = "loop"
            /\ UNCHANGED <<n, l0, w, typ, rounds>>
PadRound == /\ pc = "loop" /\ NotCovered(l)
            /\ l' = Pad(typ, l, w) /\ rounds' = rounds + 1
            /\ pc' = IF Guard /\ SeqMin(l') = SeqMin(l) /\ SeqMax(l') = SeqMax(l) THEN "error" ELSE "loop"
            /\ UNCHANGED <<n, l0, w, typ>>
Exit == /\ pc = "loop" /\ ~NotCovered(l)
        /\ pc' = "done" /\ UNCHANGED <<n, l0, l, w, typ, rounds>>
Next == FirstPad \/ PadRound \/ Exit
Spec == Init /\ [][Next]_vars /\ WF_vars(Next)

\* -- properties ---------------------------------------------------------------------------------------------------
\* C04: the loop ends (returns or raises) - stated as a variant: every round that stays in the loop widens the span
Progress == [][(pc = "loop" /\ pc' = "loop" /\ l' # l) => (SeqMin(l') < SeqMin(l) \/ SeqMax(l') > SeqMax(l))]_vars
RoundsBounded == rounds <= 2 * MaxN
Terminates == <>(pc \in {"done", "error"})
\* C05: what is returned stretches beyond both ends, keeps the detected extrema in place and (default mode) is strictly ordered
Covered == pc = "done" => (SeqMin(l) < 0 /\ SeqMax(l) > n - 1)
InteriorKept == pc = "done" => \E off \in 0..(Len(l) - Len(l0)) : \A i \in 1..Len(l0) : l[off + i] = l0[i]
OddIsOrdered == (pc = "done" /\ typ = "odd") => \A i \in 1..(Len(l) - 1) : l[i] < l[i + 1]
OddNeverFails == typ = "odd" => pc # "error"
ErrorMeansStuck == pc = "error" => (SeqMax(l) <= n - 1 \/ SeqMin(l) >= 0)
W_SecondRound == ~(pc = "done" /\ rounds >= 1)
W_Error == pc # "error"
StateBound == Len(l) <= 8 * MaxN           \* only for the Guard = FALSE self-test (the state space is infinite without it)

Json == INSTANCE Json
Export == (pc \in {"done", "error"}) =>
    PrintT(<<"BEHAVIOUR", Json!ToJson([n |-> n, l0 |-> l0, w |-> w, typ |-> typ, pc |-> pc, rounds |-> rounds, l |-> l])>>)
=============================================================================
