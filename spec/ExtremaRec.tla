----------------------------- MODULE ExtremaRec -----------------------------
(* Legs B/C for C05: recorded calls of get_padded_extrema and interp_envelope validated     *)
(* against ExtremaDef.                                                                      *)
EXTENDS ExtremaDef, Json, IOUtils

Recs == JsonDeserialize(IOEnv.RECS_FILE)
VARIABLE ri
NB == 64
RInit == ri \in {-b : b \in 1..NB}
RNext == \/ ri < 0 /\ ri' \in {i \in 1..Len(Recs) : i % NB = (-ri) % NB}
         \/ ri > 0 /\ UNCHANGED ri
Bad(c) == PrintT(<<"BADREC", ri, c>>)
Is(got, want, c) == IF got = want THEN TRUE ELSE Bad(c)
EnvMode(m) == CASE m = "upper" -> "peaks" [] m = "lower" -> "troughs" [] m = "combined" -> "abs_peaks"

RECURSIVE PadLoopN(_, _, _)
\* locations only (float signals: magnitudes are checked by the harness against their source samples)
PadLoopN(l, w, n) == IF l[Len(l)] <= LS * (n - 1) \/ l[1] >= 0 THEN PadLoopN(ReflectOdd(l, w), w, n) ELSE l

RecOK == ri > 0 =>
    LET r == Recs[ri] IN
    CASE r.kind = "pad" ->
            LET want == PaddedWith(r.sig, r.pw, r.mode, r.parab = 1, r.mm) IN      \* mm: the configured magnitude padding
            IF want = NoExtrema THEN Is(r.none, 1, "get_padded_extrema.none")
            ELSE /\ Is(r.none, 0, "get_padded_extrema.none")
                 /\ Is(r.locs, want[1], "get_padded_extrema.locs")
                 /\ Is(r.mags, want[2], "get_padded_extrema.mags")
      [] r.kind = "env" ->
            LET want == PaddedWith(r.sig, r.pw, EnvMode(r.emode), r.parab = 1, r.mm)
                e0 == Extrema(r.sig, EnvMode(r.emode), FALSE)
            IN
            IF want = NoExtrema THEN Is(r.none, 1, "interp_envelope.none")
            ELSE /\ Is(r.none, 0, "interp_envelope.none")
                 /\ Is(r.n_out, Len(r.sig), "interp_envelope.length")
                 /\ Is(r.locs, want[1], "interp_envelope.extrema.locs")
                 /\ Is(r.mags, want[2], "interp_envelope.extrema.mags")
                 /\ Is(r.grid, "integer", "interp_envelope.grid")
                 \* without refinement the envelope passes through every detected extremum
                 /\ (r.parab = 0 => Is(r.knots, [i \in 1..Len(e0[1]) |-> <<e0[1][i] \div LS, e0[2][i]>>], "interp_envelope.knots"))
      [] r.kind = "padf" ->     \* float signal: extremum positions found by the harness's own strict comparisons
            LET k == Len(r.pos)
                w == IF k < r.pw THEN k ELSE r.pw
                l0 == [i \in 1..k |-> LS * r.pos[i]]
            IN
            IF k <= 1 THEN Is(r.none, 1, "get_padded_extrema.none(float)")
            ELSE /\ Is(r.none, 0, "get_padded_extrema.none(float)")
                 /\ Is(r.locs, IF w = 0 THEN l0 ELSE PadLoopN(ReflectOdd(l0, w), w, r.n), "get_padded_extrema.locs(float)")
                 /\ Is(r.mags_ok, 1, "get_padded_extrema.mags(float)")
                 /\ Is(r.grid, "integer", "interp_envelope.grid(float)")
      [] r.kind = "envp" ->     \* parabolic refinement on an integer-valued signal: one value per sample, evaluated at the integer time indices
            /\ Is(r.none \in {0, 1}, TRUE, "interp_envelope.returns(parabolic)")
            /\ (r.none = 0 => /\ Is(r.n_out, r.n, "interp_envelope.length(parabolic)")
                              /\ Is(r.grid, "integer", "interp_envelope.grid(parabolic)"))
      [] r.kind = "isimf" ->    \* is_imf(column)[0]: the extrema / zero-crossing count criterion
            Is(r.out, IF IsImfCountCheck(r.sig) THEN 1 ELSE 0, "is_imf.extrema_zero_crossing_count")
      [] r.kind = "zc" -> Is(r.out, ZeroCrossings(r.sig), "zero_crossing_count")
      [] r.kind = "epochs" ->   \* find_extrema_locked_epochs(sig, winsize, lock_to) as a list of [start, stop)
            LET want == Epochs(r.sig, r.winsize, r.mode)
                ks == SortedSeq(DOMAIN want)
            IN  Is(r.out, [i \in 1..Len(ks) |-> want[ks[i]]], "find_extrema_locked_epochs.windows")
      [] OTHER -> Bad("unknown record kind")
=============================================================================
