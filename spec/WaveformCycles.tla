--------------------------- MODULE WaveformCycles ---------------------------
(* Theorems about WaveformCyclesDef over every short integer waveform (TLC). *)
EXTENDS WaveformCyclesDef, TLC
CONSTANTS MaxLenW, LevelsW
VARIABLES x, full
Init == x \in [1..2 -> LevelsW] /\ full = FALSE
Expand == ~full /\ full' = TRUE /\ x' \in UNION {[1..n -> LevelsW] : n \in 3..MaxLenW}
Next == Expand \/ (full /\ UNCHANGED <<x, full>>)
Neg(s) == [i \in 1..Len(s) |-> -s[i]]
V(st) == Vector(x, st)
\* labels are 0 or 1..K, non-decreasing in time between zeros, each a contiguous run that starts at an extremum
Contiguous == full => \A st \in {"peaks", "troughs"} :
    /\ \A i \in 1..Len(x) : V(st)[i] \in 0..NCyc(x, st)
    /\ \A i \in 1..(Len(x) - 1) : V(st)[i] # 0 => V(st)[i+1] \in {V(st)[i], V(st)[i] + 1, 0}
    /\ \A k \in 1..NCyc(x, st) : LET run == {i \in 1..Len(x) : V(st)[i] = k} IN
                                   run # {} /\ (CHOOSE a \in run : \A b \in run : a <= b) \in Marks(x, st)
\* between the first and the last mark every sample belongs to a cycle
NoGaps == full => \A st \in {"peaks", "troughs"} : \A i \in 1..Len(x) :
    ((\E m \in Marks(x, st) : m <= i) /\ (\E m \in Marks(x, st) : m > i)) => V(st)[i] # 0
\* troughs of x are the peaks of -x
Duality == full => Vector(Neg(x), "peaks") = Vector(x, "troughs")
\* the implementation agrees with the intent whenever the waveform has exactly as many troughs as peaks, the first
\* extremum being a trough, or one trough more
ImplIsIntentWhenBalanced == (full /\ Cardinality(Troughs(x)) = Cardinality(Peaks(x)) /\ Cardinality(Peaks(x)) >= 1) =>
                                Impl(x, "troughs") = Vector(x, "troughs")
W_ImplDiffers == ~(full /\ Impl(x, "troughs") # Vector(x, "troughs"))
W_TwoCycles == ~(full /\ NCyc(x, "peaks") >= 2)
LevelsW3 == {-1, 0, 1}
=============================================================================
