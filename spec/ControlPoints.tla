---------------------------- MODULE ControlPoints ----------------------------
(* Theorems about ControlPointsDef over every short integer waveform (TLC). *)
EXTENDS ControlPointsDef, TLC
CONSTANTS MaxLenC, LevelsC
VARIABLES x, full
Init == x \in [1..2 -> LevelsC] /\ full = FALSE
Expand == ~full /\ full' = TRUE /\ x' \in UNION {[1..n -> LevelsC] : n \in 5..MaxLenC}
Next == Expand \/ (full /\ UNCHANGED <<x, full>>)
Neg(s) == [i \in 1..Len(s) |-> -s[i]]
Rev(s) == [i \in 1..Len(s) |-> s[Len(s) + 1 - i]]
\* every point lies strictly inside the cycle
Interior == full => /\ PeakSample(x) \in {None} \cup 1..(Len(x) - 2)
                    /\ TroughSample(x) \in {None} \cup 1..(Len(x) - 2)
                    /\ DescZero(x) \in {None} \cup 0..(Len(x) - 2)
                    /\ AscZero(x) \in {None} \cup 0..(Len(x) - 2)
\* negating the waveform exchanges peaks with troughs and descending with ascending zero crossings
SignDuality == full => /\ PeakSample(Neg(x)) = TroughSample(x)
                       /\ DescZero(Neg(x)) = AscZero(x)
\* the peak is a strict local maximum and no other one is higher
PeakIsHighest == (full /\ PeakSample(x) # None) =>
    LET p == PeakSample(x) + 1 IN x[p] > x[p-1] /\ x[p] > x[p+1] /\ \A k \in Peaks(x) : x[k] <= x[p]
\* a cycle whose peak precedes its trough has a sign change between them unless it touches zero exactly
PeakAboveTrough == (full /\ PeakSample(x) # None /\ TroughSample(x) # None) => x[PeakSample(x) + 1] > x[TroughSample(x) + 1]
W_AllFour == ~(full /\ PeakSample(x) # None /\ TroughSample(x) # None /\ DescZero(x) # None /\ AscZero(x) # None)
Levels5 == {-2, -1, 0, 1, 2}
Levels3 == {-1, 0, 1}
=============================================================================
