---------------------------- MODULE ControlPoints ----------------------------
(* Theorems about ControlPointsDef over every short integer waveform (TLC). *)
EXTENDS ControlPointsDef, TLC
CONSTANTS MaxLenC, LevelsC
VARIABLES x, full
Init == x \in [1..2 -> LevelsC] /\ full = FALSE
Expand == ~full /\ full' = TRUE /\ x' \in UNION {[1..n -> LevelsC] : n \in 5..MaxLenC}
Next == Expand \/ (full /\ UNCHANGED <<x, full>>)
Neg(s) == [i \in 1..Len(s) |-> -s[i]]
Rev(s) == [i \in 1..Len(s) |-> s[Len(s) + 1 - i]]
\* every point lies strictly inside the cycle
Interior == full => /\ PeakSample(x) \in {None} \cup 1..(Len(x) - 2)
                    /\ TroughSample(x) \in {None} \cup 1..(Len(x) - 2)
                    /\ DescZero(x) \in {None} \cup 0..(Len(x) - 2)
                    /\ AscZero(x) \in {None} \cup 0..(Len(x) - 2)
\* negating the waveform exchanges peaks with troughs and descending with ascending zero crossings
SignDuality == full => /\ PeakSample(Neg(x)) = TroughSample(x)
                       /\ DescZero(Neg(x)) = AscZero(x)
\* the peak is a strict local maximum and no other one is higher
PeakIsHighest == (full /\ PeakSample(x) # None) =>
    LET p == PeakSample(x) + 1 IN x[p] > x[p-1] /\ x[p] > x[p+1] /\ \A k \in Peaks(x) : x[k] <= x[p]
\* (NOT a theorem: "the highest peak lies above the lowest trough" - <<-1,0,-1,-1,1,1,0,1>> has both at 0, and with more
\*  levels a low peak can lie below a high trough; TLC refuted it at length 8 and it was removed.)
W_AllFour == ~(full /\ PeakSample(x) # None /\ TroughSample(x) # None /\ DescZero(x) # None /\ AscZero(x) # None)
Levels5 == {-2, -1, 0, 1, 2}
Levels3 == {-1, 0, 1}
=============================================================================
