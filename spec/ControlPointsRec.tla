-------------------------- MODULE ControlPointsRec --------------------------
(* Recorded calls of cf_peak_sample / cf_trough_sample / cf_descending_zero_sample / cf_ascending_zero_sample (interp=False)
   and get_control_points (label vector, mode='cycle') validated against ControlPointsDef. *)
EXTENDS ControlPointsDef, TLC, Json, IOUtils
Recs == JsonDeserialize(IOEnv.RECS_FILE)
VARIABLE ri
NB == 64
RInit == ri \in {-b : b \in 1..NB}
RNext == \/ ri < 0 /\ ri' \in {i \in 1..Len(Recs) : i % NB = (-ri) % NB}
         \/ ri > 0 /\ UNCHANGED ri
Bad(c) == PrintT(<<"BADREC", ri, c>>)
Is(got, want, c) == IF got = want THEN TRUE ELSE Bad(c)
RecOK == ri > 0 =>
    LET r == Recs[ri] IN
    CASE r.kind = "cf" ->
            /\ Is(r.peak, PeakSample(r.x), "cf_peak_sample")
            /\ Is(r.trough, TroughSample(r.x), "cf_trough_sample")
            /\ Is(r.desc, DescZero(r.x), "cf_descending_zero_sample")
            /\ Is(r.asc, AscZero(r.x), "cf_ascending_zero_sample")
      [] r.kind = "ctrl" -> Is(r.rows, ControlPoints(r.x, r.lab), "get_control_points")
      [] OTHER -> Bad("unknown record kind")
=============================================================================
