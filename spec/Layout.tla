------------------------------- MODULE Layout -------------------------------
(***************************************************************************)
(* Input contracts of the public numeric entry points of emd (C19).        *)
(* A SESSION is a sequence of calls; each call names an entry point, the   *)
(* layout in which the same data is presented, whether the arrays are      *)
(* read-only, and whether the option dictionaries of the previous call are *)
(* re-used.  The intended design: a call never modifies its inputs, its    *)
(* verdict (accept / reject) is the one of the documented contract, and    *)
(* its result depends only on the entry point and the data - not on the    *)
(* layout, not on what was called before.                                  *)
(***************************************************************************)
EXTENDS Integers, Sequences, FiniteSets, TLC

CONSTANTS MaxCalls, Dev,
          SameEP      \* TRUE: all calls of a session go to the same entry point (smaller exhaustive set)

\* entry point |-> contract
Contract == [ sift |-> "SingleSignal", ensemble_sift |-> "SingleSignal", complete_ensemble_sift |-> "SingleSignal",
              mask_sift |-> "SingleSignal", get_next_imf |-> "SingleSignal", get_next_imf_mask |-> "SingleSignal",
              interp_envelope |-> "VectorOrColumn", get_padded_extrema |-> "VectorOrColumn", is_imf |-> "VectorOrColumn",
              frequency_transform |-> "VectorOrColumn", get_cycle_vector |-> "VectorOrColumn",
              hilberthuang |-> "EqualLen", hilberthuang_1d |-> "EqualLenColumns", holospectrum |-> "EqualLenColumns",
              get_cycle_stat |-> "EqualLen", phase_align |-> "EqualLen", bin_by_phase |-> "EqualLen",
              \* the weighted form: phase, data AND a vector of weights (three arrays checked against each other)
              bin_by_phase_weighted |-> "EqualLen",
              amplitude_normalise |-> "Columns",
              \* second-level stacks [samples x first-level x second-level] for the routines that document them
              amplitude_normalise_3d |-> "Columns", frequency_transform_nht_3d |-> "Columns",
              sift_second_layer |-> "Columns", mask_sift_second_layer |-> "Columns",
              \* the cycle routines also accept a Cycles container instead of a cycle vector
              get_cycle_stat_obj |-> "EqualLen", phase_align_obj |-> "EqualLen", get_control_points_obj |-> "EqualLen",
              \* one IterateCycles object used for an augmented-mode call and then for the default call (result of the latter)
              phase_align_reused_iterator |-> "EqualLen" ]
EPs == DOMAIN Contract
Layouts == {"vector", "column", "trailing_ones", "two_columns", "row", "three_d", "mismatch",
            "strided",        \* the vector as a non-contiguous view (every second element of a larger buffer)
            "mixed", "mixed_rev",
            "three_d_one"}    \* [n x 2 x 1]: SOME trailing dimensions are one, not all - still not a single signal   \* two data arrays in DIFFERENT accepted layouts (column + vector, vector + column)
\* verdict dictated by the contract; "n/a" = the contract says nothing about this layout (not exercised)
Expected(c, l) ==
    CASE c = "SingleSignal" -> (IF l \in {"vector", "column", "trailing_ones", "strided"} THEN "accept"
                                ELSE IF l \in {"two_columns", "row", "three_d", "three_d_one"} THEN "reject" ELSE "n/a")
      [] c = "VectorOrColumn" -> (IF l \in {"vector", "column", "strided"} THEN "accept" ELSE "n/a")
      [] c = "EqualLen" -> (IF l \in {"vector", "column", "strided"} THEN "accept" ELSE IF l = "mismatch" THEN "reject"
                            ELSE IF l \in {"mixed", "mixed_rev"} THEN "accept" ELSE "n/a")
      [] c = "EqualLenColumns" -> (IF l = "column" THEN "accept" ELSE IF l = "mismatch" THEN "reject" ELSE "n/a")
      [] c = "Columns" -> (IF l = "column" THEN "accept" ELSE "n/a")

VARIABLES edited,      \* TRUE: before the session, ANOTHER configuration object (a fresh get_config()) had its nested
                       \* padding options edited - which must not be visible in any call (no shared default objects)
          hist,        \* the session so far: <<ep, layout, readonly, reuse_opts>>
          args,        \* "pristine" | "modified": the caller's arrays
          opts,        \* "pristine" | "modified": the caller's option dictionaries
          verdict,     \* verdict of the last call
          result       \* result token of the last accepted call
vars == <<edited, hist, args, opts, verdict, result>>
Init == edited \in BOOLEAN /\ hist = <<>> /\ args = "pristine" /\ opts = "pristine" /\ verdict = "none" /\ result = <<>>

Call(ep, l, ro, reuse) ==
    /\ Len(hist) < MaxCalls /\ Expected(Contract[ep], l) # "n/a"
    /\ (reuse => Len(hist) > 0 /\ hist[Len(hist)][1] = ep)
    /\ (SameEP /\ Len(hist) > 0 => hist[1][1] = ep)          \* option dicts can only be re-used for the same routine
    /\ hist' = Append(hist, <<ep, l, ro, reuse>>) /\ UNCHANGED edited
    /\ verdict' = Expected(Contract[ep], l)
    \* the result is a function of the entry point and the (canonical) data only ...
    /\ result' = (IF verdict' = "accept"
                  THEN <<ep, IF reuse /\ opts = "modified" THEN "stale_options"
                             ELSE IF edited /\ "SharedDefaultObjects" \in Dev THEN "foreign_options" ELSE "canonical">> ELSE <<>>)
    \* ... and the caller's objects are left alone
    /\ args' = (IF "WritesIntoInput" \in Dev /\ verdict' = "accept" THEN "modified" ELSE args)
    /\ opts' = (IF "ConsumesOptionDict" \in Dev /\ verdict' = "accept" THEN "modified" ELSE opts)
Next == \E ep \in EPs : \E l \in Layouts : \E ro \in BOOLEAN : \E reuse \in BOOLEAN : Call(ep, l, ro, reuse)
Spec == Init /\ [][Next]_vars

InputsUntouched == args = "pristine" /\ opts = "pristine"
LayoutInsensitive == result # <<>> => result[2] = "canonical"
RejectedNotProcessed == verdict = "reject" => result = <<>>
Json == INSTANCE Json
Export == Len(hist) = MaxCalls => PrintT(<<"BEHAVIOUR", Json!ToJson([hist |-> hist, edited |-> edited,
             verdicts |-> [k \in 1..Len(hist) |-> Expected(Contract[hist[k][1]], hist[k][2])]])>>)
=============================================================================
