------------------------------ MODULE Cycles ------------------------------
(* Leg A for C12/C13: theorems about CyclesDef!CycleVector over an enumerated domain. *)
EXTENDS CyclesDef

CONSTANTS MaxLen,   \* longest enumerated phase series
          Alphabet, \* phase values used in the enumeration
          Steps,    \* set of phase_step values (lattice units; threshold is step+1/2)
          Edges,    \* set of phase_edge values (lattice units)
          MaskMode  \* "none" | "all" : which masks the enumeration includes

---------------------------------------------------------------------------
(* Leg A: the theorems of C12 / C13, checked on every enumerated input.    *)

VARIABLES p, step, edge, mask, full

vars == <<p, step, edge, mask, full>>

Masks(n) == IF MaskMode = "none" THEN {NoMask(n)} ELSE [1..n -> BOOLEAN]

\* TLC evaluates invariants of initial states in a single thread, so the domain is produced in two
\* steps: a few "seed" states (first phase value, step, edge) and one Next step that expands a seed
\* into every series/mask of the domain that starts with it.  Theorems are stated on full states.
Suffixes == UNION {[1..n -> Alphabet] : n \in 0..(MaxLen - 1)}
Init == /\ p \in [1..1 -> Alphabet]
        /\ step \in Steps
        /\ edge \in Edges
        /\ mask = <<TRUE>>
        /\ full = FALSE
Expand == /\ ~full
          /\ full' = TRUE
          /\ p' \in {p \o s : s \in Suffixes}
          /\ mask' \in Masks(Len(p'))
          /\ UNCHANGED <<step, edge>>
Next == Expand \/ (full /\ UNCHANGED vars)

N == Len(p)
AllV == CycleVector(p, step, edge, FALSE, NoMask(N))
AllVM == CycleVector(p, step, edge, FALSE, mask)
GoodV == CycleVector(p, step, edge, TRUE, mask)

Labels(v) == {v[i] : i \in 1..Len(v)} \ {-1}
Run(v, c) == {i \in 1..Len(v) : v[i] = c}

\* C12 -----------------------------------------------------------------
ConsecutiveLabels(v) == Labels(v) = 0..(Cardinality(Labels(v)) - 1)
TemporalOrder(v) == \A i, j \in 1..Len(v) : (i < j /\ v[i] >= 0 /\ v[j] >= 0) => v[i] <= v[j]
Contiguous(v) == \A c \in Labels(v) : Run(v, c) = Min(Run(v, c))..Max(Run(v, c))
NoInternalWrap(v) == \A c \in Labels(v) : \A w \in WrapAt(p, step) : w \in Run(v, c) => w = Min(Run(v, c))
RunsAreSegments(v) == \A c \in Labels(v) :
                         /\ (Min(Run(v, c)) = 1 \/ Min(Run(v, c)) \in WrapAt(p, step))
                         /\ (Max(Run(v, c)) = N \/ Max(Run(v, c)) + 1 \in WrapAt(p, step))
Partition(v) == ConsecutiveLabels(v) /\ TemporalOrder(v) /\ Contiguous(v) /\ NoInternalWrap(v) /\ RunsAreSegments(v)

C12_PartitionAll == full => Partition(AllV)
C12_PartitionAllMasked == full => Partition(AllVM)
C12_PartitionGood == full => Partition(GoodV)
Total(av, gv) == IF WrapAt(p, step) # {} THEN \A i \in 1..N : av[i] >= 0
                                         ELSE \A i \in 1..N : av[i] = -1 /\ gv[i] = -1
C12_Total == full => Total(AllV, GoodV)

\* C13 -----------------------------------------------------------------
Sound(gv) == \A c \in Labels(gv) : Good(p, Run(gv, c), edge) /\ MaskOK(mask, Run(gv, c))
Complete(av, gv) == \A c \in Labels(av) :
                       (Good(p, Run(av, c), edge) /\ MaskOK(mask, Run(av, c)))
                           => \E g \in Labels(gv) : Run(gv, g) = Run(av, c)
\* the good cycles are an order-preserving renumbering of a subset of the all-cycles partition
Renumbering(av, gv) ==
    /\ \A g \in Labels(gv) : \E c \in Labels(av) : Run(gv, g) = Run(av, c)
    /\ \A g, h \in Labels(gv) : g < h => Max(Run(gv, g)) < Min(Run(gv, h))
C13_Sound == full => Sound(GoodV)
C13_Complete == full => Complete(AllV, GoodV)
C13_Renumbering == full => Renumbering(AllV, GoodV)

\* vacuity witnesses: the negations of these must be violated by TLC (self-test)
WSomeGood(gv) == ~(\E i \in 1..N : gv[i] >= 0)
WSomeRejected(av) == ~(\E c \in Labels(av) : ~Good(p, Run(av, c), edge))
WSomeMasked(av) == ~(\E c \in Labels(av) : Good(p, Run(av, c), edge) /\ ~MaskOK(mask, Run(av, c)))
W_SomeGood == full => WSomeGood(GoodV)
W_SomeRejected == full => WSomeRejected(AllV)
W_SomeMasked == full => WSomeMasked(AllV)

\* deliberately wrong variant (the defect fixed in 3f99c05): last boundary at N instead of N+1
DevLastSampleDropped(av) == [i \in 1..N |-> IF i = N THEN -1 ELSE av[i]]
SelfTest_DevTotal == full => Total(DevLastSampleDropped(AllV), GoodV)

=============================================================================
