----------------------------- MODULE LoggerTrace -----------------------------
(* Leg C for C20: recorded histories of real logger operations and decorated sift calls, each *)
(* with the logger state observed AFTER the operation, validated against Logger.              *)
(* Event: [op, lvl, file, v, out, exc, digest_ok, obs = [setup, level, disabled, hasFile]]     *)
EXTENDS Logger, Json, IOUtils

Traces == JsonDeserialize(IOEnv.TRACE_FILE)
VARIABLES tid, l, rejected
tvars == <<vars, tid, l, rejected>>
NT == Len(Traces)
Ev == Traces[tid][l]
Clause(name, cond) == IF cond THEN TRUE ELSE PrintT(<<"FAILCLAUSE", tid, l, name>>) /\ FALSE
IsEvent(o) == tid <= NT /\ l <= Len(Traces[tid]) /\ Ev.op = o
ObsMatches == /\ Clause("obs.setup", (Ev.obs.setup = 1) = setup')
              /\ Clause("obs.console_level", Ev.obs.level = level')
              /\ Clause("obs.disabled", (Ev.obs.disabled = 1) = disabled')
              /\ Clause("obs.file_handler", (Ev.obs.hasFile = 1) = hasFile')
Consume == l' = l + 1 /\ UNCHANGED <<tid, rejected>>
Stay == UNCHANGED <<tid, l, rejected>>

TInit == Init /\ tid = 1 /\ l = 1 /\ rejected = 0
TSetUp == IsEvent("set_up") /\ SetUp(Ev.lvl, Ev.file = 1) /\ ObsMatches /\ Consume
TSetLevel == IsEvent("set_level") /\ SetLevel(Ev.lvl) /\ ObsMatches /\ Consume
TDisable == IsEvent("disable") /\ Disable /\ ObsMatches /\ Consume
TEnable == IsEvent("enable") /\ Enable /\ ObsMatches /\ Consume
\* a call is three specification steps; the event is consumed by the last one
TCallEnter == IsEvent("call") /\ CallEnter(Ev.v, Ev.out) /\ Stay
TCallBody == IsEvent("call") /\ CallBody /\ Stay
TCallExit == /\ IsEvent("call") /\ CallExit /\ ObsMatches
             /\ Clause("call.outcome_is_the_bodys", IF Ev.out = "returns" THEN Ev.exc = "none"
                                                    ELSE Ev.exc \in {"ValueError", "EMDSiftCovergeError"})
             /\ Clause("call.result_independent_of_logger_state", Ev.digest_ok = 1)
             /\ Clause("call.harmless_before_setup", err' = "none")
             /\ Consume
TSteps == TSetUp \/ TSetLevel \/ TDisable \/ TEnable \/ TCallEnter \/ TCallBody \/ TCallExit
Fresh == /\ setup' = FALSE /\ level' = NoLevel /\ disabled' = FALSE /\ hasFile' = FALSE /\ explicit' = NoLevel
         /\ pc' = "idle" /\ saved' = NoLevel /\ over' = NoLevel /\ outcome' = "none" /\ err' = "none" /\ hist' = <<>>
NextTrace == /\ tid <= NT /\ l = Len(Traces[tid]) + 1 /\ pc = "idle"
             /\ tid' = tid + 1 /\ l' = 1 /\ UNCHANGED rejected /\ Fresh
Reject == /\ tid <= NT /\ ~ENABLED (TSteps \/ NextTrace)
          /\ PrintT(<<"REJECTED", tid, l>>)
          /\ rejected' = rejected + 1 /\ tid' = tid + 1 /\ l' = 1 /\ Fresh
Finish == /\ tid = NT + 1 /\ l = 1 /\ PrintT(<<"TRACESUMMARY", NT, rejected>>)
          /\ l' = 2 /\ UNCHANGED <<vars, tid, rejected>>
TNext == TSteps \/ NextTrace \/ Reject \/ Finish
TraceSpec == TInit /\ [][TNext]_tvars
=============================================================================
