------------------------------ MODULE Ensemble ------------------------------
(***************************************************************************)
(* Noise-assisted sifts (emd.sift.ensemble_sift, complete_ensemble_sift,   *)
(* _sift_with_noise) with their worker pool.                               *)
(*                                                                         *)
(* What matters for C08 is PROCESS-GLOBAL STATE DUPLICATED BY fork(): the  *)
(* numpy random generator.  A generator is modelled as <<lineage, n>>:     *)
(* lineage = the process whose seed sequence it continues, n = numbers of  *)
(* draws made so far.  A draw returns the token <<lineage, n>>; two draws  *)
(* give the same numbers iff the tokens are equal - exactly the semantics  *)
(* of a deterministic PRNG.  Creating the pool COPIES the parent's         *)
(* generator into every worker.                                            *)
(*                                                                         *)
(* Design "parent": every member's noise is drawn in the parent and sent   *)
(* with the job (the code after f039c76, and the complete-ensemble          *)
(* variant).  Design "worker": the member draws its own noise in whichever *)
(* worker runs it (the code before f039c76).                               *)
(***************************************************************************)
EXTENDS Integers, Sequences, FiniteSets, TLC

CONSTANTS NJobs, NWorkers, Designs, Modes

Jobs == 1..NJobs
Workers == 1..NWorkers
Parent == 0
VARIABLES design, mode, rng, pool, noise, assigned, order, member, result, pc
vars == <<design, mode, rng, pool, noise, assigned, order, member, result, pc>>

Init == /\ design \in Designs /\ mode \in Modes
        /\ rng = [p \in {Parent} |-> <<Parent, 0>>]
        /\ pool = FALSE /\ noise = [j \in Jobs |-> <<>>] /\ assigned = [j \in Jobs |-> 0]
        /\ order = <<>> /\ member = [j \in Jobs |-> <<>>] /\ result = <<>> /\ pc = "start"

\* p = mp.Pool(processes=nprocesses): fork - every worker starts from a copy of the parent's generator
CreatePool == /\ pc = "start" /\ ~pool /\ pool' = TRUE
              /\ rng' = [p \in {Parent} \cup Workers |-> rng[Parent]]
              /\ UNCHANGED <<design, mode, noise, assigned, order, member, result, pc>>
\* args = [... np.random.randn(*X.shape) ... for ii in range(nensembles)]   (parent draws, in job order)
ParentDraw(j) == /\ pc = "start" /\ pool /\ design = "parent"
                 /\ noise[j] = <<>> /\ \A i \in 1..(j-1) : noise[i] # <<>>
                 /\ noise' = [noise EXCEPT ![j] = rng[Parent]]
                 /\ rng' = [rng EXCEPT ![Parent] = <<rng[Parent][1], rng[Parent][2] + 1>>]
                 /\ UNCHANGED <<design, mode, pool, assigned, order, member, result, pc>>
Ready == pool /\ (design = "parent" => \A j \in Jobs : noise[j] # <<>>)
\* starmap: job j is taken by some worker (any assignment, any interleaving)
Take(j, w) == /\ pc = "start" /\ Ready /\ assigned[j] = 0
              /\ assigned' = [assigned EXCEPT ![j] = w]
              \* the member draws its own noise in the worker that runs it
              /\ IF design = "worker"
                 THEN /\ noise' = [noise EXCEPT ![j] = rng[w]]
                      /\ rng' = [rng EXCEPT ![w] = <<rng[w][1], rng[w][2] + 1>>]
                 ELSE UNCHANGED <<noise, rng>>
              /\ UNCHANGED <<design, mode, pool, order, member, result, pc>>
\* the member is sifted: +noise, and in flip mode also -noise, then halved
Finish(j) == /\ assigned[j] # 0 /\ member[j] = <<>>
             /\ member' = [member EXCEPT ![j] = IF mode = "flip" THEN <<"half", <<"S+", noise[j]>>, <<"S-", noise[j]>>>>
                                                ELSE <<"S+", noise[j]>>]
             /\ order' = Append(order, j)
             /\ UNCHANGED <<design, mode, rng, pool, noise, assigned, result, pc>>
\* results are collated BY JOB INDEX and averaged
Average == /\ pc = "start" /\ \A j \in Jobs : member[j] # <<>>
           /\ result' = [j \in Jobs |-> member[j]] /\ pc' = "done"
           /\ UNCHANGED <<design, mode, rng, pool, noise, assigned, order, member>>
Next == CreatePool \/ (\E j \in Jobs : ParentDraw(j)) \/ (\E j \in Jobs : \E w \in Workers : Take(j, w))
           \/ (\E j \in Jobs : Finish(j)) \/ Average
Spec == Init /\ [][Next]_vars /\ WF_vars(Next)

\* C08: every member has its own noise realisation, whatever the schedule
DistinctNoise == \A i, j \in Jobs : (i # j /\ noise[i] # <<>> /\ noise[j] # <<>>) => noise[i] # noise[j]
\* the result is the per-IMF mean over members, in job order, independent of completion order
ResultIsMean == pc = "done" => result = [j \in Jobs |-> IF mode = "flip" THEN <<"half", <<"S+", noise[j]>>, <<"S-", noise[j]>>>>
                                                        ELSE <<"S+", noise[j]>>]
Terminates == <>(pc = "done")
W_TwoWorkersUsed == ~(pc = "done" /\ \E i, j \in Jobs : assigned[i] # assigned[j])
Json == INSTANCE Json
Export == pc = "done" => PrintT(<<"BEHAVIOUR", Json!ToJson([assigned |-> assigned, order |-> order, mode |-> mode, design |-> design])>>)
=============================================================================
