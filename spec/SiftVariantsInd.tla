--------------------------- MODULE SiftVariantsInd ---------------------------
(***************************************************************************)
(* The layer-counting loops of mask_sift and complete_ensemble_sift        *)
(* (SiftVariants.tla, intended design) typed for Apalache with ARBITRARY   *)
(* natural cap, natural length and mask-list length.  IndInv is inductive  *)
(* and implies C03's "never more components than the requested cap" and    *)
(* the exact column counts for every value of these parameters:            *)
(*   apalache-mc check --init=Init    --inv=IndInv --length=0 SiftVariantsInd.tla *)
(*   apalache-mc check --init=IndInit --inv=IndInv --length=1 SiftVariantsInd.tla *)
(* SiftVariants.tla refines this module (TLC: SiftVariants!RefinesInd).    *)
(***************************************************************************)
EXTENDS Integers

VARIABLES
    \* @type: Str;
    variant,
    \* @type: Int;
    nat,
    \* @type: Int;
    cap,
    \* @type: Int;
    listlen,
    \* @type: Str;
    pc,
    \* @type: Int;
    layer,
    \* @type: Int;
    ncols,
    \* @type: Bool;
    cont

Min(a, b) == IF a < b THEN a ELSE b
Max(a, b) == IF a > b THEN a ELSE b
Params == /\ variant \in {"mask", "ceemd"} /\ nat \in Nat /\ nat >= 1 /\ cap \in Nat /\ listlen \in Nat
          /\ (variant = "mask" => cap # 0) /\ (variant # "mask" => listlen = 0)
Init == Params /\ pc = "start" /\ layer = 0 /\ ncols = 0 /\ cont = TRUE

MaskCap == IF listlen # 0 /\ listlen < cap THEN listlen ELSE cap
MaskIter == /\ variant = "mask" /\ pc \in {"start", "loop"} /\ cont
            /\ ncols' = ncols + 1
            /\ cont' = (~(layer = MaskCap - 1) /\ ~(layer + 1 >= nat))
            /\ layer' = layer + 1 /\ pc' = "loop"
            /\ UNCHANGED <<variant, nat, cap, listlen>>
CeemdFirst == /\ variant = "ceemd" /\ pc = "start"
              /\ ncols' = 1 /\ layer' = 1
              /\ cont' = ~(cap # 0 /\ 1 >= cap)
              /\ pc' = "loop" /\ UNCHANGED <<variant, nat, cap, listlen>>
CeemdIter == /\ variant = "ceemd" /\ pc = "loop" /\ cont
             /\ ncols' = ncols + 1 /\ layer' = layer + 1
             /\ cont' = (~(ncols + 1 >= nat) /\ ~(cap # 0 /\ layer + 1 = cap))
             /\ UNCHANGED <<variant, nat, cap, listlen, pc>>
Next == MaskIter \/ CeemdFirst \/ CeemdIter

DoneV == pc = "loop" /\ ~cont
CapRespected == (DoneV /\ cap # 0) => ncols <= cap
MaskCount == (DoneV /\ variant = "mask") => ncols = Min(MaskCap, nat)
CeemdCount == (DoneV /\ variant = "ceemd") => ncols = (IF cap = 0 THEN Max(nat, 2) ELSE Min(cap, Max(nat, 2)))

IndInv == /\ Params /\ pc \in {"start", "loop"}
          /\ ncols = layer /\ layer >= 0
          /\ pc = "start" => (layer = 0 /\ cont)
          /\ variant = "mask" =>
                /\ layer <= MaskCap /\ layer <= nat
                /\ cont => (layer < MaskCap /\ layer < nat)
                /\ (pc = "loop" /\ ~cont) => (layer = MaskCap \/ layer = nat)
          /\ (variant = "ceemd" /\ pc = "loop") =>
                /\ layer >= 1
                /\ cap # 0 => layer <= cap
                /\ (cont /\ cap # 0) => layer < cap
                /\ (cont /\ layer >= 2) => layer < nat
                /\ ~cont => (layer = cap \/ (layer >= 2 /\ layer >= nat /\ layer <= Max(nat, 2)))
                /\ layer <= Max(nat, 2)
          /\ CapRespected /\ MaskCount /\ CeemdCount
IndInit == /\ variant \in {"mask", "ceemd"} /\ nat \in Int /\ cap \in Int /\ listlen \in Int
           /\ pc \in {"start", "loop"} /\ layer \in Int /\ ncols \in Int /\ cont \in BOOLEAN
           /\ IndInv
=============================================================================
