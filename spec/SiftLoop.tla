------------------------------ MODULE SiftLoop ------------------------------
(***************************************************************************)
(* One single-IMF extraction: emd.sift.get_next_imf.                       *)
(*                                                                         *)
(* Signals are not modelled by value.  The current iterate is a TOKEN MAP: *)
(* a sequence of integer coefficients over the common denominator D,       *)
(*    proto = <<c_x, c_1, ..., c_k>>   meaning   (c_x X + sum_j c_j m_j)/D *)
(* where X is the input and m_j is the envelope mean computed at           *)
(* iteration j (an opaque token: the numeric kernel's output).  Removing   *)
(* a mean appends its coefficient.  The loop body of the code maps         *)
(* one-for-one onto the actions below; the numeric kernels appear only as  *)
(* environment choices (envelopes exist or not, stop rule fires or not,    *)
(* energy test fires or not).                                              *)
(*                                                                         *)
(* Every action takes the configuration record                             *)
(*   c = [method, maxIters, step, energy, dev]                             *)
(* so that the same actions serve the bounded model (configuration from    *)
(* CONSTANTS) and trace validation (configuration from the trace).         *)
(***************************************************************************)
EXTENDS Integers, Sequences, FiniteSets, TLC

CONSTANTS Methods,     \* subset of {"sd", "rilling", "fixed"}
          MaxItersSet, \* set of configured iteration limits (max_iters)
          Steps,       \* set of env_step_size values as multiples of 1/D
          EnergySet,   \* subset of BOOLEAN: is an energy threshold configured
          Dev          \* set of named deviations from the intended design (normally {})

D == 12
Configs == [method : Methods, maxIters : MaxItersSet, step : Steps, energy : EnergySet, dev : {Dev}]

VARIABLES pc,        \* "top" | "env" | "stop" | "energy" | "ret" | "raised"
          niters,    \* iterations started
          proto,     \* token map of the current iterate
          flag,      \* continue flag returned to the caller
          stopAt,    \* iteration at which the stop rule fired (0 = it did not)
          missAt,    \* iteration at which an envelope was missing (0 = never)
          fired,     \* set of iterations at which the stop rule was evaluated TRUE
          evald,     \* set of iterations at which the stop rule was evaluated at all
          efired,    \* "n/a" | "yes" | "no": outcome of the energy test
          c          \* the configuration of this call (constant along a behaviour)
lvars == <<pc, niters, proto, flag, stopAt, missAt, fired, evald, efired>>
vars == <<lvars, c>>

LoopInit == /\ pc = "top" /\ niters = 0 /\ proto = <<D>> /\ flag = TRUE
            /\ stopAt = 0 /\ missAt = 0 /\ fired = {} /\ evald = {} /\ efired = "n/a"
Init == LoopInit /\ c \in Configs

\* while-loop head: the iteration-limit test comes BEFORE the increment (lines 127-133)
Top == /\ pc = "top"
       /\ IF c.method # "fixed" /\ niters > c.maxIters
          THEN pc' = "raised" /\ UNCHANGED <<niters, proto, flag, stopAt, missAt, fired, evald, efired>>
          ELSE pc' = "env" /\ niters' = niters + 1 /\ UNCHANGED <<proto, flag, stopAt, missAt, fired, evald, efired>>

\* the two envelopes of the current iterate exist (lines 135-145)
EnvOK == /\ pc = "env" /\ pc' = "stop"
         /\ UNCHANGED <<niters, proto, flag, stopAt, missAt, fired, evald, efired>>
\* ... or at least one is undefined: too few extrema.  The input is flagged as the final residual
\* only if this happens in the very first iteration; otherwise the iterate is returned as an IMF.
EnvMissing == /\ pc = "env"
              /\ missAt' = niters
              /\ flag' = (IF niters = 1 \/ "FlagOnMidSiftExtremaLoss" \in c.dev THEN FALSE ELSE flag)
              /\ pc' = (IF c.energy THEN "energy" ELSE "ret")
              /\ UNCHANGED <<niters, proto, stopAt, fired, evald, efired>>

\* the stopping rule is evaluated on the current iterate (lines 153-169)
StopRule(fire) ==
    /\ pc = "stop"
    /\ (c.method = "fixed" => fire = (niters = c.maxIters))
    /\ evald' = evald \cup {niters}
    /\ Len(proto) = niters                                   \* m_niters has not been removed yet
    /\ IF fire
       THEN /\ proto' = Append(proto, IF "StepOnReturn" \in c.dev THEN -c.step ELSE -D)   \* full mean removed
            /\ stopAt' = niters /\ fired' = fired \cup {niters}
            /\ pc' = (IF c.energy THEN "energy" ELSE "ret")
       ELSE /\ proto' = Append(proto, -c.step)                                            \* step-scaled mean removed
            /\ pc' = "top" /\ UNCHANGED <<stopAt, fired>>
    /\ UNCHANGED <<niters, flag, missAt, efired>>

\* optional energy-ratio test on the result (lines 174-178)
EnergyTest(fire) == /\ pc = "energy" /\ pc' = "ret"
                    /\ flag' = (IF fire THEN FALSE ELSE flag)
                    /\ efired' = (IF fire THEN "yes" ELSE "no")
                    /\ UNCHANGED <<niters, proto, stopAt, missAt, fired, evald>>

LoopNext == Top \/ EnvOK \/ EnvMissing \/ (\E f \in BOOLEAN : StopRule(f)) \/ (\E f \in BOOLEAN : EnergyTest(f))
\* the bounded model: the configuration never changes (one named action each, for TLC's coverage report)
MTop == Top /\ UNCHANGED c
MEnvOK == EnvOK /\ UNCHANGED c
MEnvMissing == EnvMissing /\ UNCHANGED c
MStopRule == (\E f \in BOOLEAN : StopRule(f)) /\ UNCHANGED c
MEnergyTest == (\E f \in BOOLEAN : EnergyTest(f)) /\ UNCHANGED c
Next == MTop \/ MEnvOK \/ MEnvMissing \/ MStopRule \/ MEnergyTest
Done == pc \in {"ret", "raised"}
Spec == Init /\ [][Next]_vars /\ WF_vars(Next)

---------------------------------------------------------------------------
(* C04 *)
Iterate(n, s) == <<D>> \o [i \in 1..n |-> -s]            \* X - (s/D)(m_1 + ... + m_n)
TypeOK == /\ pc \in {"top", "env", "stop", "energy", "ret", "raised"} /\ niters \in 0..(c.maxIters + 1)
\* each iterate is the previous one minus the step-scaled mean of its envelopes
IterRel == [][(pc = "stop" /\ pc' = "top") => proto' = Append(proto, -c.step)]_vars
IterateShape == pc \in {"env", "stop"} => proto = Iterate(niters - 1, c.step)
\* what is returned
ReturnRule == pc = "ret" =>
    /\ (stopAt > 0 /\ missAt = 0) \/ (stopAt = 0 /\ missAt > 0)
    /\ stopAt > 0 => (stopAt = niters /\ proto = Append(Iterate(niters - 1, c.step), -D))   \* full mean removed
    /\ missAt > 0 => (missAt = niters /\ proto = Iterate(niters - 1, c.step))               \* no further mean removed
    /\ (missAt = 1) => (proto = <<D>> /\ flag = FALSE)          \* unmodified input, flagged as final residual
    /\ (flag = FALSE /\ efired # "yes") => missAt = 1            \* ... and only then (energy stop apart)
FixedCount == (c.method = "fixed" /\ pc = "ret" /\ stopAt > 0) => niters = c.maxIters
FirstHit == (pc = "ret" /\ stopAt > 0) => (fired = {stopAt} /\ evald = 1..stopAt)
Bounded == niters <= c.maxIters + 1
NeverUnconverged == pc = "ret" => (stopAt > 0 \/ missAt > 0)
RaiseOnlyAtLimit == pc = "raised" => (c.method # "fixed" /\ niters = c.maxIters + 1 /\ stopAt = 0 /\ missAt = 0)
Terminates == <>Done

\* every step of this model, projected on its control variables, is a step of SiftLoopInd - the typed skeleton on which
\* Apalache proves Bounded / NeverUnconverged / RaiseOnlyAtLimit / FixedCount inductively and a ranking function
\* (termination) for EVERY iteration limit, not only those in MaxItersSet            (intended design only: Dev = {})
SLI == INSTANCE SiftLoopInd WITH maxIters <- c.maxIters, method <- c.method, energy <- c.energy
RefinesInd == [][SLI!Next]_<<pc, niters, flag, stopAt, missAt>>
IndInvHolds == SLI!IndInv
VariantFalls == [][SLI!VariantDecreases]_<<pc, niters, flag, stopAt, missAt>>

\* vacuity witnesses
W_Raise == pc # "raised"
W_MissLater == ~(pc = "ret" /\ missAt > 1)
W_StopLater == ~(pc = "ret" /\ stopAt > 2)
W_EnergyFlag == ~(pc = "ret" /\ flag = FALSE /\ stopAt > 0)

\* Leg B export: every terminal state determines its behaviour (which iteration missed / fired)
Json == INSTANCE Json
Export == Done => PrintT(<<"BEHAVIOUR", Json!ToJson([cfg |-> [method |-> c.method, maxIters |-> c.maxIters, step |-> c.step, energy |-> c.energy], pc |-> pc, niters |-> niters, proto |-> proto, flag |-> flag,
                                                   stopAt |-> stopAt, missAt |-> missAt, efired |-> efired])>>)
=============================================================================
