------------------------------ MODULE MaskSift ------------------------------
(***************************************************************************)
(* Masked sift (emd.sift.mask_sift, get_next_imf_mask, get_mask_freqs).    *)
(*                                                                         *)
(* One masked IMF:  nphases jobs, job i extracts from  X + k_i  where k_i  *)
(* is the sinusoidal mask with phase 2 pi i / nphases; the jobs are run by *)
(* a worker pool in any interleaving; results are stored BY JOB INDEX and  *)
(* collated as (1/n) sum_i (E_i - k_i).  Token algebra: E(i) and K(i) are  *)
(* opaque tokens, the collated result is the multiset-free normal form     *)
(* <<coefficient of E_i, coefficient of K_i>> per job.                     *)
(*                                                                         *)
(* Across layers: the mask frequency ladder and the amplitude state        *)
(* machine (abs / ratio_sig / ratio_imf) - see Ladder and AmpSource.       *)
(***************************************************************************)
EXTENDS MaskSiftDef

CONSTANTS NPhases, NWorkers, Dev

Jobs == 0..(NPhases - 1)
Workers == 1..NWorkers
VARIABLES assigned, running, res, order, out, pc
vars == <<assigned, running, res, order, out, pc>>

MaskOf(i) == <<"K", i>>               \* amp * cos(2 pi z t + 2 pi i / n)
ExtractOf(i) == <<"E", i>>            \* get_next_imf(X + K_i)

Init == /\ assigned = [i \in Jobs |-> 0] /\ running = {} /\ res = <<>> /\ order = <<>> /\ out = <<>> /\ pc = "run"
\* a free worker takes the next job (real pools hand jobs out in order; any worker may get any job)
Take(i, w) == /\ pc = "run" /\ assigned[i] = 0 /\ \A j \in Jobs : j < i => assigned[j] # 0
              /\ ~\E j \in running : assigned[j] = w
              /\ assigned' = [assigned EXCEPT ![i] = w] /\ running' = running \cup {i}
              /\ UNCHANGED <<res, order, out, pc>>
Finish(i) == /\ pc = "run" /\ i \in running
             /\ running' = running \ {i} /\ order' = Append(order, i)
             /\ UNCHANGED <<assigned, res, out, pc>>
\* starmap returns results in job order whatever the completion order; the deviation appends them as they complete
Collect == /\ pc = "run" /\ Len(order) = NPhases
           /\ res' = (IF "ResultsInCompletionOrder" \in Dev THEN [j \in 1..NPhases |-> ExtractOf(order[j])]
                                                            ELSE [j \in 1..NPhases |-> ExtractOf(j - 1)])
           /\ pc' = "collate" /\ UNCHANGED <<assigned, running, order, out>>
\* imfs = concatenate(res) - m ; mean over phases
Collate == /\ pc = "collate"
           /\ out' = [j \in 1..NPhases |-> <<res[j], MaskOf(j - 1)>>]        \* (res[j] - K_{j-1}) / n, for each column j
           /\ pc' = "done" /\ UNCHANGED <<assigned, running, res, order>>
Next == (\E i \in Jobs : \E w \in Workers : Take(i, w)) \/ (\E i \in Jobs : Finish(i)) \/ Collect \/ Collate
Spec == Init /\ [][Next]_vars /\ WF_vars(Next)

\* C07: each phase exactly once, each extraction paired with ITS OWN mask, independent of the schedule
Canonical == [j \in 1..NPhases |-> <<ExtractOf(j - 1), MaskOf(j - 1)>>]
OrderIndependent == pc = "done" => out = Canonical
EachPhaseOnce == pc = "done" => {out[j][2][2] : j \in 1..NPhases} = Phases(NPhases)
Terminates == <>(pc = "done")
W_OutOfOrderCompletion == ~(pc = "done" /\ \E a, b \in 1..NPhases : a < b /\ order[a] > order[b])

Json == INSTANCE Json
Export == pc = "done" => PrintT(<<"BEHAVIOUR", Json!ToJson([assigned |-> [j \in 1..NPhases |-> assigned[j - 1]], order |-> [j \in 1..NPhases |-> order[j] + 1]])>>)
=============================================================================
