----------------------------- MODULE OptionFlow -----------------------------
(***************************************************************************)
(* How the three option groups travel through the call graph of            *)
(* emd/sift.py:  imf (options of get_next_imf), env (interp_envelope),     *)
(* ext (get_padded_extrema).  Each group is abstracted to a token: "user"  *)
(* (the caller supplied non-default values) or "default".                  *)
(* One action per CALL SITE, named caller -> callee, stating which groups  *)
(* it forwards.  The three stage functions are get_next_imf (consumes      *)
(* imf), interp_envelope (consumes env) and get_padded_extrema (consumes   *)
(* ext).  C06: whenever a stage runs, the group it consumes is what the    *)
(* user supplied at the entry point - in the parent and in pool workers.   *)
(***************************************************************************)
EXTENDS OptionFlowDef

CONSTANTS Dev

Variants == {"sift", "ensemble_sift", "complete_ensemble_sift", "mask_sift", "sift_second_layer", "mask_sift_second_layer"}
Routes == {"kwargs", "config", "partial", "partial_after_edit"}   \* the last: get_func() taken again after nested edits on the same object
Groups == {"imf", "env", "ext"}
Tok == {"user", "default"}

VARIABLES variant, route, supplied,   \* what the user gave at the entry point: [Groups -> Tok]
          stack,                      \* call stack: sequence of [fn, o] with o : [Groups -> Tok]
          proc,                       \* "parent" | "worker"
          last                        \* ghost: name of the call site taken last (for coverage / vacuity control)
vars == <<variant, route, supplied, stack, proc, last>>

Top == stack[Len(stack)]
Push(fn, o) == stack' = Append(stack, [fn |-> fn, o |-> o])
Drop(o, gs) == [g \in Groups |-> IF g \in gs THEN "default" ELSE o[g]]
Frame == UNCHANGED <<variant, route, supplied>>

\* delivery routes (keyword dicts, **SiftConfig, SiftConfig.get_func()) all bind the same three keywords
Init == /\ variant \in Variants /\ route \in Routes /\ supplied \in [Groups -> Tok]
        /\ stack = <<[fn |-> variant, o |-> supplied]>> /\ proc = "parent" /\ last = "entry"

Call(site, caller, callee, gsDropped, toWorker) ==
    /\ last' = site
    /\ Top.fn = caller /\ Len(stack) < 7
    /\ Push(callee, Drop(Top.o, gsDropped))
    /\ proc' = (IF toWorker THEN "worker" ELSE proc) /\ Frame

\* ---- call sites ----------------------------------------------------------------------------------
Sift_GetNextImf == Call("Sift_GetNextImf", "sift", "get_next_imf", {}, FALSE)                                           \* sift.py: sift()
Ens_Pool_SiftWithNoise == Call("Ens_Pool_SiftWithNoise", "ensemble_sift", "_sift_with_noise", {}, TRUE)                        \* p.starmap
Ceemd_Pool_SiftWithNoise == Call("Ceemd_Pool_SiftWithNoise", "complete_ensemble_sift", "_sift_with_noise", {}, TRUE)
Ceemd_Pool_NoiseSift == Call("Ceemd_Pool_NoiseSift", "complete_ensemble_sift", "sift",
                             IF "CEEMD_NoiseSift_DropsOpts" \in Dev THEN Groups ELSE {}, TRUE)        \* noise modes
SiftWithNoise_Sift == Call("SiftWithNoise_Sift", "_sift_with_noise", "sift", {}, FALSE)                                    \* + noise, and - noise in flip mode
Mask_GetMaskFreqs == Call("Mask_GetMaskFreqs", "mask_sift", "get_mask_freqs", IF "MaskFreqs_DropsEnvExt" \in Dev THEN {"env", "ext"} ELSE {}, FALSE)
MaskFreqs_GetNextImf == Call("MaskFreqs_GetNextImf", "get_mask_freqs", "get_next_imf", {}, FALSE)
Mask_GetNextImfMask == Call("Mask_GetNextImfMask", "mask_sift", "get_next_imf_mask", {}, FALSE)
ImfMask_Pool_GetNextImf == Call("ImfMask_Pool_GetNextImf", "get_next_imf_mask", "get_next_imf",
                                IF "MaskJob_DropsEnvExt" \in Dev THEN {"env", "ext"} ELSE {}, TRUE)  \* functools.partial + starmap
Second_Sift == Call("Second_Sift", "sift_second_layer", "sift", {}, FALSE)
MaskSecond_MaskSift == Call("MaskSecond_MaskSift", "mask_sift_second_layer", "mask_sift", {}, FALSE)
GetNextImf_InterpEnvelope == Call("GetNextImf_InterpEnvelope", "get_next_imf", "interp_envelope", {}, FALSE)                      \* upper and lower
InterpEnvelope_GetPaddedExtrema == Call("InterpEnvelope_GetPaddedExtrema", "interp_envelope", "get_padded_extrema", {}, FALSE)
Return == /\ Len(stack) > 1 /\ stack' = SubSeq(stack, 1, Len(stack) - 1)
          /\ proc' = (IF \E i \in 1..(Len(stack) - 1) : stack[i].fn \in {"_sift_with_noise"} \/ (stack[i].fn = "get_next_imf" /\ i > 1 /\ stack[i-1].fn = "get_next_imf_mask")
                         \/ (stack[i].fn = "sift" /\ i > 1 /\ stack[i-1].fn = "complete_ensemble_sift") THEN "worker" ELSE "parent")
          /\ Frame /\ last' = "return"
Next == Sift_GetNextImf \/ Ens_Pool_SiftWithNoise \/ Ceemd_Pool_SiftWithNoise \/ Ceemd_Pool_NoiseSift \/ SiftWithNoise_Sift
        \/ Mask_GetMaskFreqs \/ MaskFreqs_GetNextImf \/ Mask_GetNextImfMask \/ ImfMask_Pool_GetNextImf
        \/ Second_Sift \/ MaskSecond_MaskSift \/ GetNextImf_InterpEnvelope \/ InterpEnvelope_GetPaddedExtrema \/ Return
Spec == Init /\ [][Next]_vars

\* C06
StageSeesSupplied == StageGroup(Top.fn) # "none" => Top.o[StageGroup(Top.fn)] = supplied[StageGroup(Top.fn)]
\* ... and a stage on the way also carries the groups of the stages below it
CarriesDownstream == /\ Top.fn = "get_next_imf" => (Top.o["env"] = supplied["env"] /\ Top.o["ext"] = supplied["ext"])
                     /\ Top.fn = "interp_envelope" => Top.o["ext"] = supplied["ext"]
SitesSeen == PrintT(<<"SITE", last>>)
W_WorkerStage == ~(proc = "worker" /\ Top.fn = "get_padded_extrema" /\ supplied["ext"] = "user")
=============================================================================
