----------------------------- MODULE ExtremaDef -----------------------------
(***************************************************************************)
(* Extrema detection and padding (emd.sift._find_extrema,                  *)
(* compute_parabolic_extrema, get_padded_extrema) on integer signals.      *)
(*                                                                         *)
(* Positions are 0-based sample indices (as in the code).  So that         *)
(* parabolic refinement stays in the integers, locations are carried in    *)
(* units of 1/LS sample and magnitudes in units of 1/MS:  for integer      *)
(* triples y0 < y1 > y2 the vertex of the parabola is                      *)
(*    t = loc - 2 + Nn/(2 Dd),  y = c - Nn^2/(8 Dd)                        *)
(* with Nn = 5y0-8y1+3y2, Dd = y0-2y1+y2 in -4..-1 on a 3-level alphabet,  *)
(* so LS = 24 and MS = 96 make every value an integer.                     *)
(*                                                                         *)
(* Padding is numpy's  pad(mode='reflect', reflect_type='odd')  for the    *)
(* locations and  pad(mode='median', stat_length=1)  (edge replication)    *)
(* for the magnitudes, including numpy's two-pass behaviour when the pad   *)
(* width equals the number of extrema, the clamp of the width to the       *)
(* number of extrema, the "at most one extremum => None" rule, and the     *)
(* repeat-until-covered loop.                                              *)
(***************************************************************************)
EXTENDS Integers, Sequences, FiniteSets, TLC

LS == 24
MS == 96

Neg(s) == [i \in 1..Len(s) |-> -s[i]]
AbsS(s) == [i \in 1..Len(s) |-> IF s[i] < 0 THEN -s[i] ELSE s[i]]
Rev(s) == [i \in 1..Len(s) |-> s[Len(s) + 1 - i]]

\* strict local maxima: 1-based positions j with s[j-1] < s[j] > s[j+1]; ends and plateaus have none
PeakPos(s) == {j \in 2..(Len(s) - 1) : s[j] > s[j-1] /\ s[j] > s[j+1]}

RECURSIVE SortedSeq(_)
SortedSeq(S) == IF S = {} THEN <<>>
                ELSE LET m == CHOOSE x \in S : \A y \in S : x <= y IN <<m>> \o SortedSeq(S \ {m})

\* location (x LS) and magnitude (x MS) of the extremum at 1-based position j of s
PlainLoc(s, j) == LS * (j - 1)
PlainMag(s, j) == MS * s[j]
Nn(s, j) == 5 * s[j-1] - 8 * s[j] + 3 * s[j+1]
Dp(s, j) == -(s[j-1] - 2 * s[j] + s[j+1])                \* > 0 at a strict maximum
ParabLoc(s, j) == LS * (j - 1) - 2 * LS - (12 * Nn(s, j)) \div Dp(s, j)
ParabMag(s, j) == MS * (3 * s[j-1] - 3 * s[j] + s[j+1]) + (12 * Nn(s, j) * Nn(s, j)) \div Dp(s, j)

\* _find_extrema(s, parabolic) : <<locs, mags>>
FindExtrema(s, parab) ==
    LET pos == SortedSeq(PeakPos(s)) IN
    << [i \in 1..Len(pos) |-> IF parab THEN ParabLoc(s, pos[i]) ELSE PlainLoc(s, pos[i])],
       [i \in 1..Len(pos) |-> IF parab THEN ParabMag(s, pos[i]) ELSE PlainMag(s, pos[i])] >>

\* the three detection modes of get_padded_extrema
Extrema(s, mode, parab) ==
    CASE mode = "peaks" -> FindExtrema(s, parab)
      [] mode = "troughs" -> LET e == FindExtrema(Neg(s), parab) IN <<e[1], Neg(e[2])>>
      [] mode = "abs_peaks" -> FindExtrema(AbsS(s), parab)

\* numpy.pad(a, w, 'reflect', reflect_type='odd') for w <= Len(a) - 1 (single pass)
ReflectOnce(a, w) ==
    LET n == Len(a) IN
    [i \in 1..w |-> 2 * a[1] - a[w + 2 - i]] \o a \o [i \in 1..w |-> 2 * a[n] - a[n - i]]
\* ... and for w = Len(a): numpy pads Len(a)-1 points, then the remaining one about the new ends
ReflectOdd(a, w) == IF w <= Len(a) - 1 THEN ReflectOnce(a, w)
                    ELSE ReflectOnce(ReflectOnce(a, Len(a) - 1), w - (Len(a) - 1))
\* numpy.pad(a, w, 'median', stat_length=1): replicate the end values
EdgePad(a, w) == [i \in 1..w |-> a[1]] \o a \o [i \in 1..w |-> a[Len(a)]]

\* numpy.pad(a, w, 'reflect') (even reflection, numpy's default reflect_type) - a custom choice for mag_pad_opts
EvenOnce(a, w) ==
    LET n == Len(a) IN
    [i \in 1..w |-> a[w + 2 - i]] \o a \o [i \in 1..w |-> a[n - i]]
ReflectEven(a, w) == IF w <= Len(a) - 1 THEN EvenOnce(a, w)
                     ELSE EvenOnce(EvenOnce(a, Len(a) - 1), w - (Len(a) - 1))
\* magnitude padding as configured: "edge" = the default (median of one value), "reflect" = {'mode': 'reflect'}
MagPad(mm, a, w) == IF mm = "reflect" THEN ReflectEven(a, w) ELSE EdgePad(a, w)

NoExtrema == <<"None">>

RECURSIVE PadLoop(_, _, _, _)
\* "keep padding if the locations don't stretch to the edge"
PadLoop(l, m, w, n) == IF l[Len(l)] <= LS * (n - 1) \/ l[1] >= 0
                       THEN PadLoop(ReflectOdd(l, w), EdgePad(m, w), w, n)
                       ELSE <<l, m>>

\* get_padded_extrema(s, pad_width, mode, parabolic_extrema)
Padded(s, pw, mode, parab) ==
    LET e == Extrema(s, mode, parab)
        k == Len(e[1])
        w == IF k < pw THEN k ELSE pw
    IN  IF k <= 1 THEN NoExtrema
        ELSE IF w = 0 THEN e
        ELSE PadLoop(ReflectOdd(e[1], w), EdgePad(e[2], w), w, Len(s))

\* ... with user-supplied np.pad options for the magnitudes (the same options govern the first and every repeated round)
RECURSIVE PadLoopM(_, _, _, _, _)
PadLoopM(l, m, w, n, mm) == IF l[Len(l)] <= LS * (n - 1) \/ l[1] >= 0
                            THEN PadLoopM(ReflectOdd(l, w), MagPad(mm, m, w), w, n, mm)
                            ELSE <<l, m>>
PaddedWith(s, pw, mode, parab, mm) ==
    LET e == Extrema(s, mode, parab)
        k == Len(e[1])
        w == IF k < pw THEN k ELSE pw
    IN  IF k <= 1 THEN NoExtrema
        ELSE IF w = 0 THEN e
        ELSE PadLoopM(ReflectOdd(e[1], w), MagPad(mm, e[2], w), w, Len(s), mm)

---------------------------------------------------------------------------
(* Behaviour beyond the listed properties that rests on the same extrema rules.                          *)

\* zero_crossing_count: sign changes between neighbouring samples (sign in {-1, 0, 1})
Sgn(v) == IF v > 0 THEN 1 ELSE IF v < 0 THEN -1 ELSE 0
ZeroCrossings(s) == Cardinality({i \in 1..(Len(s) - 1) : Sgn(s[i]) # Sgn(s[i + 1])})
\* scipy.signal.find_peaks counts one peak per PLATEAU that is higher than the samples on both sides
PlateauPeaks(s) == Cardinality({i \in 2..(Len(s) - 1) :
                      /\ s[i - 1] < s[i]
                      /\ \E j \in i..(Len(s) - 1) : (\A k \in i..j : s[k] = s[i]) /\ s[j + 1] < s[i]})
\* is_imf, first criterion: number of extrema and of zero crossings differ by at most one; evaluated only when
\* both envelopes of the column exist (otherwise both checks are left False)
IsImfCountCheck(s) ==
    LET hasEnv == Padded(s, 2, "peaks", FALSE) # NoExtrema /\ Padded(s, 2, "troughs", FALSE) # NoExtrema
        d == ZeroCrossings(s) - (PlateauPeaks(s) + PlateauPeaks(Neg(s)))
    IN  hasEnv /\ d <= 1 /\ d >= -1
\* utils.find_extrema_locked_epochs: windows of +-winsize/2 around each extremum that fit into the record
Epochs(s, winsize, mode) ==
    LET e == Extrema(s, mode, FALSE)
        h == winsize \div 2
        locs == [i \in 1..Len(e[1]) |-> e[1][i] \div LS]
        keep == {i \in 1..Len(locs) : locs[i] - h >= 0 /\ locs[i] + h <= Len(s)}
    IN  [i \in keep |-> <<locs[i] - h, locs[i] + h>>]
=============================================================================
