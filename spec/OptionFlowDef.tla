---------------------------- MODULE OptionFlowDef ----------------------------
(* Definitions shared by the call-graph model (OptionFlow) and record validation (OptionFlowRec). *)
EXTENDS Integers, Sequences, FiniteSets, TLC

StageGroup(fn) == CASE fn = "get_next_imf" -> "imf" [] fn = "interp_envelope" -> "env" [] fn = "get_padded_extrema" -> "ext" [] OTHER -> "none"
\* every edge of the call graph, for conformance: an observed caller -> stage edge must be one of these
Edges == {<<"sift", "get_next_imf">>, <<"get_mask_freqs", "get_next_imf">>, <<"pool", "get_next_imf">>,
          <<"get_next_imf", "interp_envelope">>, <<"interp_envelope", "get_padded_extrema">>}
=============================================================================
