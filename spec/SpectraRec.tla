----------------------------- MODULE SpectraRec -----------------------------
(* Legs B/C for C10 / C11: recorded calls of hilberthuang (dense and sparse), hilberthuang_1d *)
(* and holospectrum (three squash modes) validated against SpectraDef.                        *)
EXTENDS SpectraDef, Json, IOUtils

Recs == JsonDeserialize(IOEnv.RECS_FILE)
VARIABLE ri
NB == 64
RInit == ri \in {-b : b \in 1..NB}
RNext == \/ ri < 0 /\ ri' \in {i \in 1..Len(Recs) : i % NB = (-ri) % NB}
         \/ ri > 0 /\ UNCHANGED ri
Bad(c) == PrintT(<<"BADREC", ri, c>>)
Is(got, want, c) == IF got = want THEN TRUE ELSE Bad(c)
Scale(H, s) == [a \in 1..Len(H) |-> [c \in 1..Len(H[a]) |-> s * H[a][c]]]

RecOK == ri > 0 =>
    LET r == Recs[ri] IN
    CASE r.kind = "hht" ->      \* integer grid: the spec computes the bins itself
            LET H == HHT(r.F, r.A, r.edges, r.p)   H1 == HHT1D(r.F, r.A, r.edges, r.p) IN
            /\ Is(r.dense, H, "hilberthuang.dense")
            /\ Is(r.sparse, H, "hilberthuang.sparse")
            /\ Is(r.oned, H1, "hilberthuang_1d")
      [] r.kind = "hhtf" ->     \* float instance: bins supplied by the harness, amplitudes in fixed point
            LET H == HHTb(r.B, r.P, r.nb)   H1 == HHT1Db(r.B, r.P, r.nb) IN
            /\ Is(r.dense, H, "hilberthuang.dense(float)")
            /\ Is(r.sparse, H, "hilberthuang.sparse(float)")
            /\ Is(r.oned, H1, "hilberthuang_1d(float)")
      [] r.kind = "holo" ->
            LET H == Holo(r.F1, r.F2, r.A2, r.e1, r.e2, r.p) IN
            /\ Is(r.full, H, "holospectrum.full")
            /\ Is(r.sum, SquashSum(H), "holospectrum.sum")
            /\ Is(r.meanT, SquashSum(H), "holospectrum.mean")     \* T * mean = sum
      [] r.kind = "holof" ->
            LET H == Holob(r.B1, r.B2, r.P2, r.nb1, r.nb2) IN
            /\ Is(r.full, H, "holospectrum.full(float)")
            /\ Is(r.sum, SquashSum(H), "holospectrum.sum(float)")
            /\ Is(r.meanT, SquashSum(H), "holospectrum.mean(float)")
      [] OTHER -> Bad("unknown record kind")
=============================================================================
