---------------------------- MODULE SiftVariants ----------------------------
(***************************************************************************)
(* Layer counting and IMF caps of the sift variants other than the classic *)
(* one (which is Sift.tla): mask_sift, ensemble_sift,                      *)
(* complete_ensemble_sift, sift_second_layer / mask_sift_second_layer.     *)
(* Each loop is written from its code: where the layer counter is          *)
(* incremented relative to the cap test, what is computed before the loop, *)
(* how columns are allocated.  The environment is `nat`: the number of     *)
(* layers after which the extraction itself says "stop" (flag FALSE /      *)
(* too few peaks / small IMF).                                             *)
(***************************************************************************)
EXTENDS Integers, Sequences, FiniteSets, TLC

CONSTANTS MaxNat,     \* natural lengths 1..MaxNat
          Caps,       \* cap values; 0 = None
          ListLens,   \* lengths of a user-supplied mask frequency list; 0 = no list
          Dev

VARIABLES variant, nat, cap, listlen, pc, layer, ncols, cont
vars == <<variant, nat, cap, listlen, pc, layer, ncols, cont>>

Min(a, b) == IF a < b THEN a ELSE b
Variants == {"mask", "ensemble", "ceemd", "second"}

Init == /\ variant \in Variants /\ nat \in 1..MaxNat /\ cap \in Caps
        /\ listlen \in (IF variant = "mask" THEN ListLens ELSE {0})
        /\ (variant = "mask" => cap # 0)          \* mask_sift's cap defaults to 9 and is never None
        /\ pc = "start" /\ layer = 0 /\ ncols = 0 /\ cont = TRUE

\* ---- mask_sift (lines 1029-1095) -----------------------------------------------------------------
MaskCap == IF listlen # 0 /\ listlen < cap THEN listlen ELSE cap        \* "Reducing max_imfs to len(mask_freqs)"
MaskIter == /\ variant = "mask" /\ pc \in {"start", "loop"} /\ cont
            /\ ncols' = ncols + 1
            \* cap test uses imf_layer BEFORE its increment: imf_layer == max_imfs - 1
            /\ cont' = (~(layer = MaskCap - 1) /\ ~(layer + 1 >= nat))
            /\ layer' = layer + 1 /\ pc' = "loop"
            /\ UNCHANGED <<variant, nat, cap, listlen>>
\* ---- complete_ensemble_sift (lines 723-786) ------------------------------------------------------
CeemdFirst == /\ variant = "ceemd" /\ pc = "start"
              /\ ncols' = 1
              /\ layer' = (IF "CEEMD_CapTestBeforeIncrement" \in Dev THEN 0 ELSE 1)
              /\ cont' = (IF "CEEMD_CapTestBeforeIncrement" \in Dev THEN TRUE ELSE ~(cap # 0 /\ 1 >= cap))
              /\ pc' = "loop" /\ UNCHANGED <<variant, nat, cap, listlen>>
CeemdIter == /\ variant = "ceemd" /\ pc = "loop" /\ cont
             /\ ncols' = ncols + 1
             /\ IF "CEEMD_CapTestBeforeIncrement" \in Dev
                THEN cont' = (~(ncols + 1 >= nat) /\ ~(cap # 0 /\ layer = cap)) /\ layer' = layer + 1
                ELSE layer' = layer + 1 /\ cont' = (~(ncols + 1 >= nat) /\ ~(cap # 0 /\ layer + 1 = cap))
             /\ UNCHANGED <<variant, nat, cap, listlen, pc>>
\* ---- ensemble_sift (lines 629-657): members are capped classic sifts; output allocated with cap columns
Ensemble == /\ variant = "ensemble" /\ pc = "start"
            /\ LET memcols == IF cap = 0 THEN nat ELSE Min(cap, nat) IN     \* Sift!Prefix
               ncols' = (IF cap = 0 THEN memcols ELSE cap)
            /\ pc' = IF cap # 0 /\ cap > nat THEN "raises" ELSE "loop"      \* IndexError: a member has fewer columns
            /\ cont' = FALSE /\ UNCHANGED <<variant, nat, cap, listlen, layer>>
\* ---- sift_second_layer: imf2[:, ii, :tmp.shape[1]] = tmp with max_imfs columns allocated ----------
Second == /\ variant = "second" /\ pc = "start"
          /\ ncols' = (IF cap = 0 THEN nat ELSE cap)
          /\ pc' = "loop" /\ cont' = FALSE /\ UNCHANGED <<variant, nat, cap, listlen, layer>>
Next == MaskIter \/ CeemdFirst \/ CeemdIter \/ Ensemble \/ Second
Spec == Init /\ [][Next]_vars /\ WF_vars(Next)
DoneV == pc = "loop" /\ ~cont

\* C03: no variant ever returns more components than the requested cap
CapRespected == (DoneV /\ cap # 0) => ncols <= cap
MaskCount == (DoneV /\ variant = "mask") => ncols = Min(MaskCap, nat)
\* (the natural-end tests of the complete-ensemble loop are only made from the second IMF on)
Max(a, b) == IF a > b THEN a ELSE b
CeemdCount == (DoneV /\ variant = "ceemd") => ncols = (IF cap = 0 THEN Max(nat, 2) ELSE Min(cap, Max(nat, 2)))
Terminates == <>(DoneV \/ pc = "raises")
\* the mask and complete-ensemble loops, step by step, are the loops of SiftVariantsInd, on which Apalache proves
\* CapRespected / MaskCount / CeemdCount inductively for ARBITRARY natural cap, natural length and list length  (Dev = {})
SVI == INSTANCE SiftVariantsInd
RefinesInd == [][(variant \in {"mask", "ceemd"}) => SVI!Next]_vars
IndInvHolds == variant \in {"mask", "ceemd"} => SVI!IndInv

W_CapBinds == ~(DoneV /\ cap # 0 /\ ncols = cap /\ nat > cap)
=============================================================================
