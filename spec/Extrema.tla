------------------------------- MODULE Extrema -------------------------------
(* Leg A for C05 (and the extrema/padding part of C02): theorems about ExtremaDef over      *)
(* EVERY sequence of length 3..MaxLen over a 3-level alphabet x pad widths x modes x         *)
(* parabolic refinement.                                                                     *)
EXTENDS ExtremaDef

CONSTANTS MaxLen, Levels, PadWidths
Levels3 == {-1, 0, 1}

VARIABLES s, pw, mode, parab, full
vars == <<s, pw, mode, parab, full>>

Modes == {"peaks", "troughs", "abs_peaks"}
Init == /\ s \in [1..2 -> Levels] /\ pw \in PadWidths /\ mode \in Modes /\ parab \in BOOLEAN /\ full = FALSE
Expand == /\ ~full /\ full' = TRUE
          /\ s' \in {s \o t : t \in UNION {[1..n -> Levels] : n \in 1..(MaxLen - 2)}}
          /\ UNCHANGED <<pw, mode, parab>>
Next == Expand \/ (full /\ UNCHANGED vars)

N == Len(s)
E == Extrema(s, mode, parab)
P == Padded(s, pw, mode, parab)
K == Len(E[1])
StrictlyIncreasing(q) == \A i \in 1..(Len(q) - 1) : q[i] < q[i + 1]

\* C05: detected extrema are exactly the strict local maxima / minima
ExactExtrema == full /\ ~parab =>
    /\ mode = "peaks" => \A j \in 2..(N-1) : (LS * (j-1) \in {E[1][i] : i \in 1..K}) <=> (s[j] > s[j-1] /\ s[j] > s[j+1])
    /\ mode = "troughs" => \A j \in 2..(N-1) : (LS * (j-1) \in {E[1][i] : i \in 1..K}) <=> (s[j] < s[j-1] /\ s[j] < s[j+1])
    /\ \A i \in 1..K : E[2][i] = MS * (IF mode = "abs_peaks" THEN AbsS(s) ELSE s)[E[1][i] \div LS + 1]
\* parabolic refinement moves an extremum by less than one sample and never lowers a peak
RefinedNear == full /\ parab =>
    LET E0 == Extrema(s, mode, FALSE) IN
    /\ Len(E[1]) = Len(E0[1])
    /\ \A i \in 1..K : E[1][i] > E0[1][i] - LS /\ E[1][i] < E0[1][i] + LS
    /\ \A i \in 1..K : IF mode = "troughs" THEN E[2][i] <= E0[2][i] ELSE E[2][i] >= E0[2][i]
\* C05: padding only adds mirrored extrema beyond both ends, strictly ordered, interior untouched
PadShape == full =>
    IF K <= 1 THEN P = NoExtrema
    ELSE IF pw = 0 THEN P = E
    ELSE LET l == P[1]  m == P[2]  extra == (Len(l) - K) \div 2 IN
         /\ Len(l) = Len(m) /\ (Len(l) - K) % 2 = 0 /\ extra >= 1
         /\ StrictlyIncreasing(l)
         /\ SubSeq(l, extra + 1, extra + K) = E[1] /\ SubSeq(m, extra + 1, extra + K) = E[2]
         /\ \A i \in 1..extra : l[i] < E[1][1] /\ m[i] = E[2][1]
         /\ \A i \in (extra + K + 1)..Len(l) : l[i] > E[1][K] /\ m[i] = E[2][K]
         /\ l[1] < 0 /\ l[Len(l)] > LS * (N - 1)
         \* mirrored: the first round of added locations are odd reflections about the end extrema
         /\ LET w == IF K < pw THEN K ELSE pw IN
            w <= K - 1 => \A i \in 1..w : /\ l[extra + 1 - i] = 2 * E[1][1] - E[1][1 + i]
                                          /\ l[extra + K + i] = 2 * E[1][K] - E[1][K - i]
\* C02 (extrema / padding part): the specified rule is equivariant under time reversal and sign flip
MirrorLocs(q, n) == [i \in 1..Len(q) |-> LS * (n - 1) - q[Len(q) + 1 - i]]
ReversalEquivariant == full =>
    LET Pr == Padded(Rev(s), pw, mode, parab) IN
    IF P = NoExtrema THEN Pr = NoExtrema
    ELSE Pr[1] = MirrorLocs(P[1], N) /\ Pr[2] = Rev(P[2])
SignFlipEquivariant == full /\ mode = "peaks" =>
    LET Pt == Padded(Neg(s), pw, "troughs", parab) IN
    IF P = NoExtrema THEN Pt = NoExtrema ELSE Pt[1] = P[1] /\ Pt[2] = Neg(P[2])
ScaleEquivariant == full =>
    LET P2 == Padded([i \in 1..N |-> 2 * s[i]], pw, mode, parab) IN
    IF P = NoExtrema THEN P2 = NoExtrema ELSE P2[1] = P[1] /\ P2[2] = [i \in 1..Len(P[2]) |-> 2 * P[2][i]]

\* vacuity witnesses / spec-mutation self-tests
W_RepeatedPadding == ~(full /\ P # NoExtrema /\ pw > 0 /\ Len(P[1]) > K + 2 * (IF K < pw THEN K ELSE pw))
W_TwoPass == ~(full /\ K >= 2 /\ pw >= K)
\* deviation: left-edge test "> 0" instead of ">= 0" (a seeded change) breaks reversal symmetry
RECURSIVE PadLoopDev(_, _, _, _)
PadLoopDev(l, m, w, n) == IF l[Len(l)] <= LS * (n - 1) \/ l[1] > 0 THEN PadLoopDev(ReflectOdd(l, w), EdgePad(m, w), w, n) ELSE <<l, m>>
PaddedDev(x, w0, md, pb) == LET e == Extrema(x, md, pb)  k == Len(e[1])  w == IF k < w0 THEN k ELSE w0 IN
    IF k <= 1 THEN NoExtrema ELSE IF w = 0 THEN e ELSE PadLoopDev(ReflectOdd(e[1], w), EdgePad(e[2], w), w, Len(x))
SelfTest_DevReversal == full =>
    LET A == PaddedDev(s, pw, mode, parab)  B == PaddedDev(Rev(s), pw, mode, parab) IN
    IF A = NoExtrema THEN B = NoExtrema ELSE B[1] = MirrorLocs(A[1], N)
=============================================================================
