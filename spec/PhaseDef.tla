------------------------------- MODULE PhaseDef -------------------------------
(***************************************************************************)
(* The instantaneous-phase pipeline on a PHASE LATTICE of M points per     *)
(* 2 pi (emd.spectra.phase_from_complex_signal, freq_from_phase,           *)
(* phase_from_freq, emd.utils.wrap_phase).  Apart from the analytic-signal *)
(* step the pipeline is integer-linear on the lattice:                     *)
(*   np.angle      -> Angle  : representative in (-M/2, M/2]               *)
(*   np.unwrap     -> Unwrap : add the multiple of M bringing each step    *)
(*                             into [-M/2, M/2)  (ties are not modelled)   *)
(*   medfilt(.,5)  -> Med5   : median of five with zero padding            *)
(*   phase_jump    -> Offset : + M/4, 0, - M/4, + M/2                      *)
(*   wrap_phase    -> mod                                                  *)
(*   np.gradient   -> Grad2  : DOUBLED gradient (central differences       *)
(*                             inside, one-sided at the ends)              *)
(*   cumsum        -> CumPhase                                             *)
(***************************************************************************)
EXTENDS Integers, Sequences, FiniteSets, TLC

CONSTANT M        \* lattice points per 2 pi (divisible by 4)
H == M \div 2
Mod(a, m) == a % m                                      \* TLA+ % is non-negative for m > 0
Angle(k) == Mod(k + H - 1, M) - H + 1                   \* in (-M/2, M/2]
StepWrap(d) == Mod(d + H, M) - H                        \* in [-M/2, M/2)
RECURSIVE UnwrapFrom(_, _, _)
UnwrapFrom(a, t, acc) == IF t > Len(a) THEN acc
                         ELSE UnwrapFrom(a, t + 1, Append(acc, acc[t - 1] + StepWrap(a[t] - a[t - 1])))
Unwrap(a) == IF Len(a) = 0 THEN <<>> ELSE UnwrapFrom(a, 2, <<a[1]>>)
\* median of the five values u[t-2..t+2], zeros outside the record
At0(u, t) == IF t < 1 \/ t > Len(u) THEN 0 ELSE u[t]
Median5(w) == CHOOSE m \in {w[i] : i \in 1..5} :
                 /\ Cardinality({i \in 1..5 : w[i] < m}) <= 2
                 /\ Cardinality({i \in 1..5 : w[i] > m}) <= 2
Med5(u) == [t \in 1..Len(u) |-> Median5([i \in 1..5 |-> At0(u, t - 3 + i)])]
Offset(jump) == CASE jump = "ascending" -> M \div 4 [] jump = "peak" -> 0 [] jump = "descending" -> -(M \div 4) [] jump = "trough" -> H
Shift(u, c) == [t \in 1..Len(u) |-> u[t] + c]
WrapSeq(u, period) == [t \in 1..Len(u) |-> Mod(u[t], period)]
\* phase_from_complex_signal(exp(i 2 pi k / M), smoothing, ret_phase, phase_jump)
PhaseFromComplex(k, smooth, jump, wrapped) ==
    LET a == [t \in 1..Len(k) |-> Angle(k[t])]
        u0 == Unwrap(a)
        u1 == IF smooth THEN Med5(u0) ELSE u0
        u2 == Shift(u1, Offset(jump))
    IN  IF wrapped THEN WrapSeq(u2, M) ELSE u2
\* utils.wrap_phase(IP, ncycles, mode)
WrapPhase(u, nc, mode) == IF mode = "2pi" THEN WrapSeq(u, nc * M)
                          ELSE [t \in 1..Len(u) |-> Mod(u[t] + nc * H, nc * M) - nc * H]
\* freq_from_phase: np.gradient, doubled
Grad2(u) == [t \in 1..Len(u) |-> IF Len(u) = 1 THEN 0
                                 ELSE IF t = 1 THEN 2 * (u[2] - u[1])
                                 ELSE IF t = Len(u) THEN 2 * (u[Len(u)] - u[Len(u) - 1])
                                 ELSE u[t + 1] - u[t - 1]]
\* phase_from_freq: start + cumulative sum of per-sample phase increments
RECURSIVE CumFrom(_, _, _)
CumFrom(f, t, acc) == IF t > Len(f) THEN acc ELSE CumFrom(f, t + 1, Append(acc, acc[t - 1] + f[t]))
CumPhase(f, start) == IF Len(f) = 0 THEN <<>> ELSE CumFrom(f, 2, <<start + f[1]>>)
=============================================================================
