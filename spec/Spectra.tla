------------------------------- MODULE Spectra -------------------------------
(* Leg A for C10 / C11: conservation and consistency theorems of SpectraDef over an        *)
(* enumerated grid of edge-hitting frequencies.                                            *)
EXTENDS SpectraDef

CONSTANTS Shapes,    \* set of <<T, M, K>> (K = 0: Hilbert-Huang only)
          FVals,     \* frequency values (below range, on every edge, inside, on last edge, above)
          AVals,     \* amplitude values
          EdgeSets,  \* set of edge sequences
          PVals      \* {1, 2}: amplitude / energy

\* named instances for the configuration files (cfg syntax has no tuples)
ShapesHHTQuick == {<<1,1,0>>, <<1,2,0>>, <<2,1,0>>, <<2,2,0>>}
ShapesHHTFull == ShapesHHTQuick \cup {<<3,1,0>>}
ShapesHoloQuick == {<<1,1,1>>, <<1,2,1>>, <<2,1,1>>, <<1,1,2>>}
ShapesHoloFull == ShapesHoloQuick \cup {<<1,2,2>>, <<2,1,2>>}
FGridHHT == {-1, 1, 2, 3, 4, 5, 6, 7}   \* below (also negative), on each edge, inside, on last edge, above
FGridHHTQuick == {-1, 2, 3, 4, 6, 7}
FGridHolo == {-1, 2, 3, 4, 6}
EdgesA == {<<2,4,6>>, <<2,4>>}
EdgesB == {<<2,4,6>>, <<2,4>>, <<2,3,4,6>>}

VARIABLES F, A, F2, A2, e1, e2, p, full
vars == <<F, A, F2, A2, e1, e2, p, full>>

Mat(T, M, V) == [1..T -> [1..M -> V]]
Cube(T, M, K, V) == [1..T -> [1..M -> [1..K -> V]]]

\* seeds: shape, edge sets, mode, and the first-level frequencies; Expand adds the rest
Init == \E sh \in Shapes :
          /\ F \in Mat(sh[1], sh[2], FVals)
          /\ e1 \in EdgeSets /\ e2 \in EdgeSets /\ p \in PVals
          /\ (sh[3] = 0 => e2 = e1)
          /\ A = <<>> /\ F2 = <<sh[3]>> /\ A2 = <<>> /\ full = FALSE
Expand == /\ ~full /\ full' = TRUE
          /\ LET T == Len(F)  M == Len(F[1])  K == F2[1] IN
               IF K = 0 THEN A' \in Mat(T, M, AVals) /\ F2' = <<>> /\ A2' = <<>>
               ELSE A' = <<>> /\ F2' \in Cube(T, M, K, FVals) /\ A2' \in Cube(T, M, K, AVals)
          /\ UNCHANGED <<F, e1, e2, p>>
Next == Expand \/ (full /\ UNCHANGED vars)

IsHHT == full /\ A # <<>>
IsHolo == full /\ A2 # <<>>
InRange(f, edges) == edges[1] <= f /\ f < edges[Len(edges)]

\* C10 ------------------------------------------------------------------------------------------
\* every time column holds exactly the in-range amplitude/energy of that time sample
C10_ColumnConservation == IsHHT =>
    LET H == HHT(F, A, e1, p) IN
    \A t \in 1..Len(F) : SumSeq([b \in 1..NBins(e1) |-> H[b][t]]) =
                         SumSeq([m \in 1..Len(F[t]) |-> IF InRange(F[t][m], e1) THEN Pow(A[t][m], p) ELSE 0])
\* the marginal spectrum is the time-sum of the 2-D spectrum, per IMF summed
C10_MarginalAgrees == IsHHT =>
    LET H == HHT(F, A, e1, p)   H1 == HHT1D(F, A, e1, p) IN
    \A b \in 1..NBins(e1) : SumSeq([t \in 1..Len(F) |-> H[b][t]]) = SumSeq([m \in 1..Len(F[1]) |-> H1[b][m]])
\* each sample lands in at most one bin and that bin's interval contains it
C10_OneBin == IsHHT => \A t \in 1..Len(F) : \A m \in 1..Len(F[t]) :
    LET b == BinOf(F[t][m], e1) IN
    /\ (b = 0) <=> ~InRange(F[t][m], e1)
    /\ b # 0 => (e1[b] <= F[t][m] /\ F[t][m] < e1[b + 1] /\ \A c \in 1..NBins(e1) : (e1[c] <= F[t][m] /\ F[t][m] < e1[c + 1]) => c = b)

\* C11 ------------------------------------------------------------------------------------------
C11_FoldRefines == IsHolo => HoloFolded(F, F2, A2, e1, e2, p) = Holo(F, F2, A2, e1, e2, p)
C11_Conservation == IsHolo =>
    LET H == Holo(F, F2, A2, e1, e2, p) IN
    \A t \in 1..Len(F) :
        SumSeq([a \in 1..NBins(e2) |-> SumSeq([c \in 1..NBins(e1) |-> H[t][a][c]])]) =
        SumSeq([m \in 1..Len(F[t]) |-> SumSeq([k \in 1..Len(F2[t][m]) |->
            IF InRange(F[t][m], e1) /\ InRange(F2[t][m][k], e2) THEN Pow(A2[t][m][k], p) ELSE 0])])
C11_Shape == IsHolo => LET H == Holo(F, F2, A2, e1, e2, p) IN
    Len(H) = Len(F) /\ Len(H[1]) = NBins(e2) /\ Len(H[1][1]) = NBins(e1)

\* a deliberately wrong fold (modulus |e1| instead of |e1|+1): self-test, must violate C11_FoldRefines
W_SomeOutOfRange == ~(IsHHT /\ \E t \in 1..Len(F) : \E m \in 1..Len(F[t]) : ~InRange(F[t][m], e1) /\ A[t][m] > 0)
W_NonSquare == ~(IsHolo /\ NBins(e1) # NBins(e2))
=============================================================================
