----------------------------- MODULE LockstepRec -----------------------------
(* C02, output-level product for the masked sift (whose extractions run inside pool workers): the   *)
(* columns of mask_sift(c * x) with a RATIO amplitude mode must be c times the columns of           *)
(* mask_sift(x) - bit-for-bit for c = +-2^k, to within rounding otherwise.                          *)
EXTENDS Integers, Sequences, FiniteSets, TLC, Json, IOUtils
Recs == JsonDeserialize(IOEnv.RECS_FILE)
VARIABLE ri
NB == 64
RInit == ri \in {-b : b \in 1..NB}
RNext == \/ ri < 0 /\ ri' \in {i \in 1..Len(Recs) : i % NB = (-ri) % NB}
         \/ ri > 0 /\ UNCHANGED ri
Bad(c) == PrintT(<<"BADREC", ri, c>>)
Ok(cond, c) == IF cond THEN TRUE ELSE Bad(c)
RecOK == ri > 0 =>
    LET r == Recs[ri] IN
    \* raised: 0 both runs completed, 1 both raised the same error (e.g. no convergence: legitimate, and equivariant), 2 they differ
    /\ Ok(r.raised \in {0, 1}, "masked.both_runs_complete_or_fail_alike")
    /\ Ok(r.raised # 0 \/ r.ncols_a = r.ncols_b, "masked.same_number_of_components")
    /\ Ok(r.raised # 0 \/ \A k \in 1..Len(r.rel) : IF r.need = "bit" THEN r.rel[k] = "bit_equal" ELSE r.rel[k] \in {"bit_equal", "close"},
          "masked.components_scale_with_the_signal")
=============================================================================
