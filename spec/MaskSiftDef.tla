----------------------------- MODULE MaskSiftDef -----------------------------
(* Pure definitions of the masking rule shared by the model (MaskSift) and record validation. *)
EXTENDS Integers, Sequences, FiniteSets, TLC

\* phases are the first n points of linspace(0, 2 pi, n+1): in units of 2 pi / n they are 0..n-1
Phases(n) == {i : i \in 0..(n - 1)}
---------------------------------------------------------------------------
\* successive mask frequencies are the first one divided by successive powers of the step factor p/q:
\* z[k] * p = z[k-1] * q ; in fixed point (z6 = z * 10^6 rounded) the two sides differ by at most p + q
LadderOK(z6, p, q) == \A k \in 2..Len(z6) : LET d == z6[k] * p - z6[k - 1] * q IN d <= p + q /\ -d <= p + q
\* which standard deviation scales the mask amplitude of layer k (1-based)
AmpSource(mode, k) == CASE mode = "abs" -> "one"
                         [] mode = "ratio_sig" -> "sd_signal"
                         [] mode = "ratio_imf" -> IF k = 1 THEN "sd_signal" ELSE "sd_previous_imf"
=============================================================================
