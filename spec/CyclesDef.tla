------------------------------ MODULE CyclesDef ------------------------------
(***************************************************************************)
(* Cycle detection on a wrapped phase series (emd.cycles.get_cycle_vector, *)
(* emd.cycles.is_good, the is_good metric of emd.cycles.Cycles).           *)
(*                                                                         *)
(* Phases are integers on a lattice of M points per 2*pi.  The step and    *)
(* edge parameters are given in lattice units; the wrap threshold is a     *)
(* half-integer (S2 = 2*step+1 in doubled units) so that "|diff| > step"   *)
(* never ties; the edge criteria ARE evaluated at exact ties (values E     *)
(* and M-E are in the alphabet and the harness maps them to the very       *)
(* floats phase_edge and 2*pi-phase_edge).                                 *)
(*                                                                         *)
(* Properties C12 (partition at wraps) and C13 (good cycles) are stated    *)
(* as theorems about CycleVector and checked by TLC over every sequence    *)
(* of the enumerated domain; the same operator is the oracle against       *)
(* which recorded calls of the real code are validated (RecOK).            *)
(***************************************************************************)
EXTENDS Integers, Sequences, FiniteSets, TLC

CONSTANT M   \* lattice points per 2*pi

Abs(x) == IF x < 0 THEN -x ELSE x

---------------------------------------------------------------------------
(* The definition of the cycle vector.                                     *)

\* sample positions (2..N) whose phase differs from the previous sample by more than the step
WrapAt(p, step) == {i \in 2..Len(p) : 2 * Abs(p[i] - p[i-1]) > 2 * step + 1}

Min(S) == CHOOSE x \in S : \A y \in S : x <= y
Max(S) == CHOOSE x \in S : \A y \in S : x >= y

\* the documented quality criteria, evaluated on one segment (a set of consecutive positions)
Increasing(p, seg) == \A i \in seg : (i + 1 \in seg) => p[i+1] > p[i]
StartsLow(p, seg, edge) == p[Min(seg)] >= 0 /\ p[Min(seg)] <= edge
EndsHigh(p, seg, edge) == p[Max(seg)] <= M /\ p[Max(seg)] >= M - edge
Good(p, seg, edge) == Increasing(p, seg) /\ StartsLow(p, seg, edge) /\ EndsHigh(p, seg, edge)
MaskOK(mask, seg) == \A i \in seg : mask[i]

\* The label vector: segments are delimited by the wraps (and the two ends of the recording);
\* accepted segments are numbered 0,1,2,... in temporal order, everything else is -1;
\* a series without any wrap has no cycles.
CycleVector(p, step, edge, good, mask) ==
    LET n == Len(p)
        W == WrapAt(p, step)
        K == Cardinality(W) + 1
        segof == [i \in 1..n |-> Cardinality({w \in W : w <= i}) + 1]
        segs == [k \in 1..K |-> {i \in 1..n : segof[i] = k}]
        acc == [k \in 1..K |-> (good => Good(p, segs[k], edge)) /\ MaskOK(mask, segs[k])]
        lab == [k \in 1..K |-> Cardinality({j \in 1..(k-1) : acc[j]})]
    IN  IF W = {} THEN [i \in 1..n |-> -1]
        ELSE [i \in 1..n |-> IF acc[segof[i]] THEN lab[segof[i]] ELSE -1]

NoMask(n) == [i \in 1..n |-> TRUE]

=============================================================================
