----------------------------- MODULE KdtMatchDef -----------------------------
(***************************************************************************)
(* Feature matching (emd.cycles.kdt_match): validity of a result, and the  *)
(* documented greedy procedure, on INTEGER feature coordinates (squared    *)
(* Euclidean distances are integers, exact ties occur).                    *)
(* Rows are numbered from 1 in the specification (0-based in the code).    *)
(***************************************************************************)
EXTENDS Integers, Sequences, FiniteSets, TLC

D2(a, b) == LET d == [f \in 1..Len(a) |-> (a[f] - b[f]) * (a[f] - b[f])] IN
            IF Len(a) = 1 THEN d[1] ELSE IF Len(a) = 2 THEN d[1] + d[2] ELSE d[1] + d[2] + d[3]
Inf == 1000000          \* "no bound"

\* number of rows of y strictly closer to x[i] than y[j]
Closer(x, y, i, j) == Cardinality({k \in 1..Len(y) : D2(x[i], y[k]) < D2(x[i], y[j])})
\* y[j] is admissible as one of the K nearest neighbours of x[i] (any tie-breaking): fewer than K strictly closer
InKNN(x, y, K, i, j) == Closer(x, y, i, j) < K
Injective(q) == \A a, b \in 1..Len(q) : a # b => q[a] # q[b]

\* C17: a valid one-to-one pairing
Valid(x, y, K, b2, xi, yi) ==
    /\ Len(xi) = Len(yi)
    /\ Injective(xi) /\ Injective(yi)
    /\ \A k \in 1..Len(xi) : xi[k] \in 1..Len(x) /\ yi[k] \in 1..Len(y)
    /\ \A k \in 1..Len(xi) : InKNN(x, y, K, xi[k], yi[k]) /\ (b2 = Inf \/ D2(x[xi[k]], y[yi[k]]) <= b2)

---------------------------------------------------------------------------
(* The greedy procedure.  nbr[i] = the K neighbour columns returned by the KD-tree query for row i:  *)
(* row indices of y in order of non-decreasing distance, 0 where there is no neighbour (fewer than   *)
(* K rows, or beyond the bound - the tree's bound is strict).                                        *)
ValidQuery(x, y, K, b2, nbr) ==
    \A i \in 1..Len(x) :
        LET q == nbr[i]
            adm == {j \in 1..Len(y) : b2 = Inf \/ D2(x[i], y[j]) < b2}
            cnt == IF Cardinality(adm) < K THEN Cardinality(adm) ELSE K
        IN  /\ Len(q) = K
            /\ \A c \in 1..cnt : q[c] \in adm
            /\ \A c \in (cnt + 1)..K : q[c] = 0
            /\ \A c, d \in 1..cnt : c # d => q[c] # q[d]
            /\ \A c \in 1..(cnt - 1) : D2(x[i], y[q[c]]) <= D2(x[i], y[q[c + 1]])
            /\ \A j \in adm : (\A c \in 1..cnt : q[c] # j) => (cnt = K /\ D2(x[i], y[j]) >= D2(x[i], y[q[cnt]]))
\* the same, row by row (used to enumerate all admissible query results constructively)
ValidRow(x, y, K, b2, i, q) ==
        LET adm == {j \in 1..Len(y) : b2 = Inf \/ D2(x[i], y[j]) < b2}
            cnt == IF Cardinality(adm) < K THEN Cardinality(adm) ELSE K
        IN  /\ \A c \in 1..cnt : q[c] \in adm
            /\ \A c \in (cnt + 1)..K : q[c] = 0
            /\ \A c, d \in 1..cnt : c # d => q[c] # q[d]
            /\ \A c \in 1..(cnt - 1) : D2(x[i], y[q[c]]) <= D2(x[i], y[q[c + 1]])
            /\ \A j \in adm : (\A c \in 1..cnt : q[c] # j) => (cnt = K /\ D2(x[i], y[j]) >= D2(x[i], y[q[cnt]]))
RECURSIVE QueryTables(_, _, _, _, _)
QueryTables(x, y, K, b2, i) ==
    IF i = 0 THEN {<<>>}
    ELSE {Append(t, q) : t \in QueryTables(x, y, K, b2, i - 1),
                         q \in {qq \in [1..K -> 0..Len(y)] : ValidRow(x, y, K, b2, i, qq)}}
Dist(x, y, i, j) == IF j = 0 THEN Inf ELSE D2(x[i], y[j])
SetMin(S) == CHOOSE m \in S : \A o \in S : m <= o

\* rows of x that list candidate u in column c.  With the deviation (the defect fixed in 1a7984b) the rows
\* are positions in a SORTED copy of the column.
RowsOf(nx, nbr, c, u, dev) ==
    IF ~dev THEN {i \in 1..nx : nbr[i][c] = u}
    ELSE LET key(v) == IF v = 0 THEN Inf ELSE v       \* the sentinel "no neighbour" is the largest index
             below == Cardinality({i \in 1..nx : key(nbr[i][c]) < key(u)})
             same == Cardinality({i \in 1..nx : nbr[i][c] = u})
         IN  (below + 1)..(below + same)
\* the claimant of candidate u in column c: the closest of its rows (first one among ties)
Claimant(x, y, nbr, c, u, dev) ==
    LET rows == RowsOf(Len(x), nbr, c, u, dev)
        best == SetMin({Dist(x, y, i, nbr[i][c]) : i \in rows})
    IN  SetMin({i \in rows : Dist(x, y, i, nbr[i][c]) = best})

RECURSIVE Columns(_, _, _, _, _, _, _)
\* m[i] = column in which row i was matched (0 = not yet); sel = candidates already taken
Columns(x, y, nbr, c, m, sel, dev) ==
    IF c > Len(nbr[1]) THEN m
    ELSE LET cands == {nbr[i][c] : i \in 1..Len(x)}
             avail == cands \ sel
             \* a row wins if it is the claimant of SOME candidate of this column and the candidate it lists itself is still available
             \* (without the deviation a claimant always lists the candidate it claims)
             win == {i \in 1..Len(x) : m[i] = 0 /\ nbr[i][c] \in avail /\ \E u \in cands : Claimant(x, y, nbr, c, u, dev) = i}
         IN  Columns(x, y, nbr, c + 1, [i \in 1..Len(x) |-> IF i \in win THEN c ELSE m[i]],
                     sel \cup {nbr[i][c] : i \in win}, dev)
RECURSIVE SeqOf(_, _)
SeqOf(S, f) == IF S = {} THEN <<>> ELSE LET a == SetMin(S) IN <<f[a]>> \o SeqOf(S \ {a}, f)
\* final selection: rows with a match whose candidate is a real row of y
Greedy(x, y, K, nbr, dev) ==
    LET m == Columns(x, y, nbr, 1, [i \in 1..Len(x) |-> 0], {}, dev)
        rows == {i \in 1..Len(x) : m[i] # 0 /\ m[i] <= Len(y) /\ nbr[i][m[i]] # 0}
    IN  << SeqOf(rows, [i \in 1..Len(x) |-> i]), SeqOf(rows, [i \in 1..Len(x) |-> IF m[i] = 0 THEN 0 ELSE nbr[i][m[i]]]) >>
=============================================================================
