------------------------------ MODULE PhaseRec ------------------------------
(* Legs B/C for C09: lattice sequences pushed through the real helpers (outputs projected back to lattice   *)
(* units) and frequency_transform observations on sinusoids, validated against PhaseDef.                    *)
EXTENDS PhaseDef, Json, IOUtils
Recs == JsonDeserialize(IOEnv.RECS_FILE)
VARIABLE ri
NB == 64
RInit == ri \in {-b : b \in 1..NB}
RNext == \/ ri < 0 /\ ri' \in {i \in 1..Len(Recs) : i % NB = (-ri) % NB}
         \/ ri > 0 /\ UNCHANGED ri
Bad(c) == PrintT(<<"BADREC", ri, c>>)
Is(got, want, c) == IF got = want THEN TRUE ELSE Bad(c)
Ok(cond, c) == IF cond THEN TRUE ELSE Bad(c)
ToSeq(f) == [i \in 1..Len(f) |-> f[i]]
Good(c) == c \in {"tight", "ok"}
RecOK == ri > 0 =>
    LET r == Recs[ri] IN
    CASE r.kind = "pfc" ->      \* phase_from_complex_signal on exp(i 2 pi k / M)
            /\ Is(r.exact, 1, "phase_from_complex_signal.on_lattice")
            /\ Is(r.out, ToSeq(IF r.wrapped = 1 THEN PhaseFromComplex(r.k, r.smooth = 1, r.jump, TRUE)
                                ELSE PhaseFromComplex(r.k, r.smooth = 1, r.jump, FALSE)), "phase_from_complex_signal.value")
      [] r.kind = "wrap" -> /\ Is(r.exact, 1, "wrap_phase.on_lattice")
                            /\ Is(r.out, ToSeq(WrapPhase(r.u, r.nc, r.mode)), "wrap_phase.value")
      [] r.kind = "ffp" ->  /\ Is(r.exact, 1, "freq_from_phase.on_lattice")
                            /\ Is(r.out2, ToSeq(Grad2(r.u)), "freq_from_phase.is_sample_rate_scaled_derivative")
      [] r.kind = "pff" ->  /\ Is(r.exact, 1, "phase_from_freq.on_lattice")
                            /\ Is(r.out, ToSeq(CumPhase(r.f, r.start)), "phase_from_freq.is_cumulative_phase")
      [] r.kind = "ft" ->       \* frequency_transform on sinusoid columns
            /\ Is(r.raised, 0, "frequency_transform.returns")
            /\ (r.raised = 0 =>
                /\ Is(r.shapes_equal, 1, "frequency_transform.shapes_equal_input")
                /\ Is(r.ip_in_range, 1, "frequency_transform.phase_in_0_2pi")
                /\ Is(r.if_is_grad, 1, "frequency_transform.frequency_is_derivative_of_unwrapped_phase")
                /\ Is(r.scale_phase, 1, "frequency_transform.phase_unchanged_by_rescaling")
                /\ Is(r.scale_freq, 1, "frequency_transform.frequency_unchanged_by_rescaling")
                /\ Is(r.scale_amp, 1, "frequency_transform.amplitude_scales")
                /\ Is(r.cols_independent, 1, "frequency_transform.columns_transformed_independently")
                /\ Ok(Good(r.class_f), "frequency_transform.frequency_accuracy")
                /\ Ok(Good(r.class_a), "frequency_transform.amplitude_accuracy")
                /\ Ok(Good(r.class_p), "frequency_transform.phase_accuracy")
                \* on lattice-aligned sinusoids the specification gives the exact expected interior phase
                /\ Ok(r.aligned = 0 \/ r.lattice_phase_ok = 1, "frequency_transform.lattice_phase"))
      [] OTHER -> Bad("unknown record kind")
=============================================================================
