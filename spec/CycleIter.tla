------------------------------ MODULE CycleIter ------------------------------
(***************************************************************************)
(* emd.cycles.IterateCycles: the iterator protocol over the index levels   *)
(* of CycleMapsDef (specification growth beyond the listed properties;     *)
(* attached to C16's check as a non-verdict leg).                          *)
(*                                                                         *)
(* One behaviour = one `for idx, inds in IterateCycles(...)` loop:         *)
(*   Start   : the structure (cycle vector, selection) and what to iterate *)
(*             through are fixed                                           *)
(*   Yield   : the next item <<idx, samples>> is handed out                *)
(*   Finish  : StopIteration                                               *)
(* mode = "cycle" (the augmented mode needs the phase and is part of       *)
(* CyclesContainer / D18).                                                 *)
(***************************************************************************)
EXTENDS CycleMapsDef

CONSTANTS KMaxI, LMaxI      \* up to KMaxI cycles of lengths 1..LMaxI, gaps of 0..1 unlabelled samples anywhere

VARIABLES cv, sel, through, pos, out, pc
vars == <<cv, sel, through, pos, out, pc>>

Rep(x, n) == [i \in 1..n |-> x]
RECURSIVE Build(_, _, _)
Build(lens, gaps, c) == IF c > Len(lens) THEN Rep(-1, gaps[c])
                        ELSE Rep(-1, gaps[c]) \o Rep(c - 1, lens[c]) \o Build(lens, gaps, c + 1)
Structures(K) == {Build(l, g, 1) : <<l, g>> \in [1..K -> 1..LMaxI] \X [1..(K+1) -> 0..1]}

Init == /\ cv = <<>> /\ sel \in UNION {[1..k -> BOOLEAN] : k \in 1..KMaxI}
        /\ through \in {"cycles", "subset", "chains"} /\ pos = 0 /\ out = <<>> /\ pc = "start"
\* (as implemented: the constructor takes chain_vect.max() and so raises ValueError for a selection without any cycle,
\*  whatever is iterated through - an empty selection cannot be iterated, not even over all cycles)
Start == /\ pc = "start" /\ cv' \in Structures(Len(sel))
         /\ pc' = (IF NSubset(sel) = 0 THEN "error" ELSE "iter")
         /\ UNCHANGED <<sel, through, pos, out>>
NItems == CASE through = "cycles" -> NCycles(cv) [] through = "subset" -> NSubset(sel) [] through = "chains" -> NChains(sel)
Item(i) == CASE through = "cycles" -> CycleToSamples(cv, i)
             [] through = "subset" -> SubsetToSamples(cv, sel, i)
             [] through = "chains" -> ChainToSamples(cv, sel, i)
Yield == /\ pc = "iter" /\ pos < NItems
         /\ out' = Append(out, <<pos, SortedSeq(Item(pos))>>) /\ pos' = pos + 1
         /\ UNCHANGED <<cv, sel, through, pc>>
Finish == /\ pc = "iter" /\ pos = NItems /\ pc' = "done"
          /\ UNCHANGED <<cv, sel, through, pos, out>>
Next == Start \/ Yield \/ Finish
Spec == Init /\ [][Next]_vars /\ WF_vars(Next)

SetOf(q) == {q[i] : i \in 1..Len(q)}
Labelled == {s \in 0..(Len(cv) - 1) : cv[s + 1] # -1}
Selected == {s \in Labelled : sel[cv[s + 1] + 1]}
\* indices come out in order, once each
InOrder == \A i \in 1..Len(out) : out[i][1] = i - 1
\* the items of one loop never overlap
Disjoint == \A i, j \in 1..Len(out) : i # j => SetOf(out[i][2]) \cap SetOf(out[j][2]) = {}
\* a finished loop over the cycles covers exactly the labelled samples; over the subset or the chains exactly the
\* samples of the selected cycles (the two levels cut the same samples differently)
Covers == pc = "done" => UNION {SetOf(out[i][2]) : i \in 1..Len(out)} = (IF through = "cycles" THEN Labelled ELSE Selected)
\* every chain item is a run of consecutive subset items
ChainsAreRuns == (pc = "done" /\ through = "chains") =>
    \A i \in 1..Len(out) : SetOf(out[i][2]) = UNION {SubsetToSamples(cv, sel, j) : j \in ChainToSubset(sel, i - 1)}
Terminates == <>(pc \in {"done", "error"})
W_TwoChains == ~(pc = "done" /\ through = "chains" /\ Len(out) >= 2)
Json == INSTANCE Json
Export == pc \in {"done", "error"} => PrintT(<<"BEHAVIOUR", Json!ToJson([cv |-> cv, sel |-> [c \in 1..Len(sel) |-> IF sel[c] THEN 1 ELSE 0],
                                                         through |-> through, out |-> out, pc |-> pc])>>)
=============================================================================
