----------------------------- MODULE StopRules -----------------------------
(***************************************************************************)
(* Bounded model of the stopping rules: TLC enumerates every decision      *)
(* point (data summary x threshold) and checks the algebraic laws that     *)
(* the documentation implies and the sift loop (SiftLoop.tla, StopRule     *)
(* action) relies on.                                                      *)
(***************************************************************************)
EXTENDS StopRulesDef, TLC
CONSTANTS MaxN, Tols      \* Tols: set of <<p, q>> thresholds
VARIABLES pt              \* a decision point (Seed before one is chosen)
Points == [rule : {"rilling"}, N : 1..MaxN, n1 : 0..MaxN, n2 : 0..MaxN, t : Tols, a : {0}]
          \cup [rule : {"sd"}, N : {0}, n1 : 0..(MaxN * MaxN), n2 : 1..(MaxN * MaxN), t : Tols, a : {0}]
          \cup [rule : {"fixed"}, N : {0}, n1 : 1..MaxN, n2 : 1..MaxN, t : {<<1, 1>>}, a : {0}]
          \cup [rule : {"energy"}, N : 0..2, n1 : 1..(MaxN * MaxN), n2 : 1..MaxN, t : {<<1, 1>>}, a : {0}]   \* N = K, n1 = A, n2 = B
Valid(x) == x.rule = "rilling" => (x.n2 <= x.n1 /\ x.n1 <= x.N)       \* sd2 > sd1: samples above sd2 are above sd1
Seed == [rule |-> "seed", N |-> 0, n1 |-> 0, n2 |-> 0, t |-> <<1, 1>>, a |-> 0]
Init == pt = Seed
Next == pt = Seed /\ pt' \in {x \in Points : Valid(x)}
Stops(x) == CASE x.rule = "rilling" -> RillingStops(x.N, x.n1, x.n2, x.t[1], x.t[2])
              [] x.rule = "sd" -> SdStops(x.n1, x.n2, x.t[1], x.t[2])
              [] x.rule = "fixed" -> FixedStops(x.n1, x.n2)
              [] x.rule = "energy" -> EnergyStops(x.n1, x.n2, x.N)
\* one large excursion (a sample above sd2) always forces another iteration
RillingAnyLargeContinues == (pt.rule # "seed" /\ pt.rule = "rilling" /\ pt.n2 > 0) => ~Stops(pt)
\* fewer samples above sd1 never turns a stop into a continue
RillingMonotone == (pt.rule # "seed" /\ pt.rule = "rilling" /\ Stops(pt) /\ pt.n1 > pt.n2) => Stops([pt EXCEPT !.n1 = pt.n1 - 1])
\* exactly at the tolerated fraction the rule stops; one more sample above sd1 and it continues
RillingBoundary == (pt.rule # "seed" /\ pt.rule = "rilling" /\ pt.n2 = 0 /\ pt.n1 * pt.t[2] = pt.t[1] * pt.N) =>
                       (Stops(pt) /\ (pt.n1 < pt.N => ~Stops([pt EXCEPT !.n1 = pt.n1 + 1])))
\* SD: strict comparison - a ratio equal to the threshold continues; a smaller change never un-stops
SdStrict == (pt.rule # "seed" /\ pt.rule = "sd" /\ pt.n1 * pt.t[2] = pt.t[1] * pt.n2) => ~Stops(pt)
SdMonotone == (pt.rule # "seed" /\ pt.rule = "sd" /\ Stops(pt) /\ pt.n1 > 0) => Stops([pt EXCEPT !.n1 = pt.n1 - 1])
\* fixed: exactly one iteration count in 1..max fires
FixedOnce == (pt.rule # "seed" /\ pt.rule = "fixed") => (Stops(pt) <=> pt.n1 = pt.n2)
\* energy: strict comparison (a ratio of exactly 10^K continues, one more unit of energy stops); more energy in the first
\* signal never un-stops, more in the second never starts a stop; a larger threshold never stops more often
EnergyBoundary == (pt.rule # "seed" /\ pt.rule = "energy" /\ pt.n1 = pt.n2 * 10 ^ pt.N) =>
                      (~Stops(pt) /\ Stops([pt EXCEPT !.n1 = pt.n1 + 1]))
EnergyMonotone == (pt.rule # "seed" /\ pt.rule = "energy" /\ Stops(pt)) =>
                      /\ Stops([pt EXCEPT !.n1 = pt.n1 + 1])
                      /\ (pt.n2 > 1 => Stops([pt EXCEPT !.n2 = pt.n2 - 1]))
                      /\ (pt.N > 0 => Stops([pt EXCEPT !.N = pt.N - 1]))
W_EnergyBoundaryReached == ~(pt.rule # "seed" /\ pt.rule = "energy" /\ pt.N > 0 /\ pt.n1 = pt.n2 * 10 ^ pt.N)
W_RillingBoundaryReached == ~(pt.rule # "seed" /\ pt.rule = "rilling" /\ pt.n2 = 0 /\ pt.n1 > 0 /\ pt.n1 * pt.t[2] = pt.t[1] * pt.N)
W_SdEqualReached == ~(pt.rule # "seed" /\ pt.rule = "sd" /\ pt.n1 * pt.t[2] = pt.t[1] * pt.n2)
Tols3 == {<<1, 20>>, <<1, 10>>, <<1, 4>>, <<1, 2>>}
=============================================================================
