---------------------------- MODULE StopRulesDef ----------------------------
(***************************************************************************)
(* The three stopping rules of single-IMF extraction (emd.sift.sd_stop,    *)
(* rilling_stop, fixed_stop) as exact decisions over integer data.         *)
(*                                                                         *)
(*  SD      : stop iff  sum((cur-prev)^2) / sum(cur^2)  <  thresh          *)
(*            with thresh = tp/tq:   num * tq < tp * den                   *)
(*  Rilling : E = |mean envelope| / envelope amplitude per sample;         *)
(*            continue iff the fraction of samples with E > sd1 EXCEEDS    *)
(*            tol, or any sample has E > sd2.  With n1 / n2 the number of  *)
(*            samples above sd1 / sd2 and tol = tp/tq:                     *)
(*            stop iff  ~(n1 * tq > tp * N)  /\  n2 = 0                    *)
(*            (a fraction EQUAL to tol stops)                              *)
(*  fixed   : stop iff niters = max_iters                                  *)
(***************************************************************************)
EXTENDS Integers

SdStops(num, den, tp, tq) == num * tq < tp * den
RillingStops(N, n1, n2, tp, tq) == ~(n1 * tq > tp * N) /\ n2 = 0
FixedStops(niters, maxit) == niters = maxit
=============================================================================
