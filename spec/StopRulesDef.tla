---------------------------- MODULE StopRulesDef ----------------------------
(***************************************************************************)
(* The stopping rules of single-IMF extraction (emd.sift.sd_stop,          *)
(* rilling_stop, fixed_stop, energy_stop) as exact integer decisions.      *)
(*                                                                         *)
(*  SD      : stop iff  sum((cur-prev)^2) / sum(cur^2)  <  thresh          *)
(*            with thresh = tp/tq:   num * tq < tp * den                   *)
(*  Rilling : E = |mean envelope| / envelope amplitude per sample;         *)
(*            continue iff the fraction of samples with E > sd1 EXCEEDS    *)
(*            tol, or any sample has E > sd2.  With n1 / n2 the number of  *)
(*            samples above sd1 / sd2 and tol = tp/tq:                     *)
(*            stop iff  ~(n1 * tq > tp * N)  /\  n2 = 0                    *)
(*            (a fraction EQUAL to tol stops)                              *)
(*  fixed   : stop iff niters = max_iters                                  *)
(*  energy  : (energy_stop, and the energy_thresh test at the end of       *)
(*            get_next_imf) stop iff 20 log10(A) - 20 log10(B) > thresh    *)
(*            with A / B the sums of squares of the two signals; for       *)
(*            thresh = 20 K decibels:  A > B * 10^K.  Both sums must be    *)
(*            positive: the code takes log10 only `where` the sum is       *)
(*            positive and reads an uninitialised value otherwise.         *)
(***************************************************************************)
EXTENDS Integers

SdStops(num, den, tp, tq) == num * tq < tp * den
RillingStops(N, n1, n2, tp, tq) == ~(n1 * tq > tp * N) /\ n2 = 0
FixedStops(niters, maxit) == niters = maxit
EnergyStops(A, B, K) == A > B * 10 ^ K
=============================================================================
