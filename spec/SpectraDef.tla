----------------------------- MODULE SpectraDef -----------------------------
(***************************************************************************)
(* Hilbert-Huang spectrum, marginal spectrum and holospectrum as           *)
(* per-sample histograms (emd.spectra.hilberthuang, hilberthuang_1d,       *)
(* holospectrum).  Frequencies, edges and amplitudes are integers on the   *)
(* enumerated grid; on float instances the harness supplies the bin of     *)
(* each sample (exact float comparisons) and fixed-point amplitudes.       *)
(***************************************************************************)
EXTENDS Integers, Sequences, FiniteSets, TLC

RECURSIVE SumSeq(_)
SumSeq(q) == IF q = <<>> THEN 0 ELSE Head(q) + SumSeq(Tail(q))
Pow(a, p) == IF p = 2 THEN a * a ELSE a

NBins(edges) == Len(edges) - 1
\* the unique half-open bin [edges[b], edges[b+1]) containing f;  0 = no bin
BinOf(f, edges) == IF \E b \in 1..NBins(edges) : edges[b] <= f /\ f < edges[b + 1]
                   THEN CHOOSE b \in 1..NBins(edges) : edges[b] <= f /\ f < edges[b + 1]
                   ELSE 0

\* --- Hilbert-Huang spectrum from per-sample bins B[t][m] and powered amplitudes P[t][m] ------------
HHTb(B, P, nb) == [b \in 1..nb |-> [t \in 1..Len(B) |->
                     SumSeq([m \in 1..Len(B[t]) |-> IF B[t][m] = b THEN P[t][m] ELSE 0])]]
HHT1Db(B, P, nb) == [b \in 1..nb |-> [m \in 1..Len(B[1]) |->
                     SumSeq([t \in 1..Len(B) |-> IF B[t][m] = b THEN P[t][m] ELSE 0])]]
Bins(F, edges) == [t \in 1..Len(F) |-> [m \in 1..Len(F[t]) |-> BinOf(F[t][m], edges)]]
Powers(A, p) == [t \in 1..Len(A) |-> [m \in 1..Len(A[t]) |-> Pow(A[t][m], p)]]
HHT(F, A, edges, p) == HHTb(Bins(F, edges), Powers(A, p), NBins(edges))
HHT1D(F, A, edges, p) == HHT1Db(Bins(F, edges), Powers(A, p), NBins(edges))

\* --- Holospectrum: F1[t][m] carrier, F2[t][m][k] / A2[t][m][k] amplitude modulation ---------------
Holob(B1, B2, P2, nb1, nb2) ==
    [t \in 1..Len(B1) |-> [a \in 1..nb2 |-> [c \in 1..nb1 |->
        SumSeq([m \in 1..Len(B1[t]) |->
            SumSeq([k \in 1..Len(B2[t][m]) |->
                IF B2[t][m][k] = a /\ B1[t][m] = c THEN P2[t][m][k] ELSE 0])])]]]
Bins3(F2, edges) == [t \in 1..Len(F2) |-> [m \in 1..Len(F2[t]) |-> [k \in 1..Len(F2[t][m]) |-> BinOf(F2[t][m][k], edges)]]]
Powers3(A2, p) == [t \in 1..Len(A2) |-> [m \in 1..Len(A2[t]) |-> [k \in 1..Len(A2[t][m]) |-> Pow(A2[t][m][k], p)]]]
Holo(F1, F2, A2, e1, e2, p) == Holob(Bins(F1, e1), Bins3(F2, e2), Powers3(A2, p), NBins(e1), NBins(e2))
SquashSum(H) == [a \in 1..Len(H[1]) |-> [c \in 1..Len(H[1][1]) |-> SumSeq([t \in 1..Len(H) |-> H[t][a][c]])]]

\* --- The implementation's route for the holospectrum: digitize-style indices, folded into one -------
\* --- axis, unfolded by a reshape and trimmed.  (Refinement: must equal Holo.)                 -------
Digitize(f, edges) == Cardinality({b \in 1..Len(edges) : edges[b] <= f})       \* 0..Len(edges)
HoloFolded(F1, F2, A2, e1, e2, p) ==
    LET fd1 == Len(e1) + 1   fd2 == Len(e2) + 1
        fold(t, m, k) == Digitize(F1[t][m], e1) + Digitize(F2[t][m][k], e2) * fd1
        flat == [t \in 1..Len(F1) |-> [x \in 0..(fd1 * fd2 - 1) |->
                    SumSeq([m \in 1..Len(F1[t]) |-> SumSeq([k \in 1..Len(F2[t][m]) |->
                        IF fold(t, m, k) = x THEN Pow(A2[t][m][k], p) ELSE 0])])]]
        \* reshape (fd2, fd1): row a0 = x \div fd1, column c0 = x % fd1 ; trim [1:-1, 1:-1]
    IN  [t \in 1..Len(F1) |-> [a \in 1..NBins(e2) |-> [c \in 1..NBins(e1) |-> flat[t][a * fd1 + c]]]]
=============================================================================
