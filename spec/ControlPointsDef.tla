-------------------------- MODULE ControlPointsDef --------------------------
(***************************************************************************)
(* Within-cycle control points (emd.cycles.cf_* with interp=False and      *)
(* get_control_points in 'cycle' mode) on integer waveforms: specification *)
(* growth beyond the listed properties (attached to C14's check as a       *)
(* non-verdict leg).  Sample positions are 0-based; "no such point" is     *)
(* None = -1 (NaN in the code's output).                                   *)
(***************************************************************************)
EXTENDS Integers, Sequences, FiniteSets

None == -1
Sgn(v) == IF v > 0 THEN 1 ELSE IF v < 0 THEN -1 ELSE 0
SetMin(S) == CHOOSE a \in S : \A b \in S : a <= b
\* strict local maxima / minima (1-based positions), as _find_extrema
Peaks(x) == {j \in 2..(Len(x) - 1) : x[j] > x[j-1] /\ x[j] > x[j+1]}
Troughs(x) == {j \in 2..(Len(x) - 1) : x[j] < x[j-1] /\ x[j] < x[j+1]}
\* the highest peak (the FIRST one among equally high peaks: argmax) ...
PeakSample(x) == IF Peaks(x) = {} THEN None
                 ELSE SetMin({j \in Peaks(x) : \A k \in Peaks(x) : x[j] >= x[k]}) - 1
\* ... and the lowest trough
TroughSample(x) == IF Troughs(x) = {} THEN None
                   ELSE SetMin({j \in Troughs(x) : \A k \in Troughs(x) : x[j] <= x[k]}) - 1
\* first sample i whose successor has the opposite sign, with no exact zero between (sign difference of -2 / +2)
DescZero(x) == LET C == {i \in 1..(Len(x) - 1) : Sgn(x[i]) = 1 /\ Sgn(x[i+1]) = -1} IN IF C = {} THEN None ELSE SetMin(C) - 1
AscZero(x) == LET C == {i \in 1..(Len(x) - 1) : Sgn(x[i]) = -1 /\ Sgn(x[i+1]) = 1} IN IF C = {} THEN None ELSE SetMin(C) - 1

\* one row of get_control_points(x, cycles, mode='cycle'): (0, peak, descending zero, trough, last sample);
\* cycles with fewer than five samples yield a row of Nones
Row(c) == IF Len(c) < 5 THEN <<None, None, None, None, None>>
          ELSE <<0, PeakSample(c), DescZero(c), TroughSample(c), Len(c) - 1>>
\* the samples of cycle k (0-based) of a label vector
CycleOf(x, lab, k) == LET idx == {i \in 1..Len(lab) : lab[i] = k}
                          RECURSIVE Pick(_)
                          Pick(S) == IF S = {} THEN <<>> ELSE LET m == SetMin(S) IN <<x[m]>> \o Pick(S \ {m})
                      IN  Pick(idx)
NCyc(lab) == IF \A i \in 1..Len(lab) : lab[i] = -1 THEN 0
             ELSE (CHOOSE m \in {lab[i] : i \in 1..Len(lab)} : \A i \in 1..Len(lab) : m >= lab[i]) + 1
ControlPoints(x, lab) == [k1 \in 1..NCyc(lab) |-> Row(CycleOf(x, lab, k1 - 1))]
=============================================================================
