------------------------------- MODULE AmpNorm -------------------------------
(***************************************************************************)
(* Iteration control of emd.utils.amplitude_normalise (used by the 'nht'   *)
(* and 'quad' frequency transforms, C09).  Every column is normalised      *)
(* independently: the column is divided by its combined envelope, the      *)
(* envelope is re-estimated, and this repeats until the envelope is flat   *)
(* (|sum(env) - N| < thresh), no envelope can be estimated, or max_iters   *)
(* divisions have been made FOR THIS COLUMN.                               *)
(* Token algebra: the result of a column is X / (e_1 ... e_k) where e_j is *)
(* the j-th envelope the numeric kernel produced for this column; only k   *)
(* matters.  The kernel is an environment fixed at Init: for each column   *)
(* and each envelope request, env[col][r] in {"ok", "flat", "none"}.       *)
(***************************************************************************)
EXTENDS Integers, Sequences, FiniteSets, TLC

CONSTANTS NCols, MaxIters, Dev
Kinds == {"ok", "flat", "none"}
VARIABLES env, col, req, iters, divs, cont, pc
vars == <<env, col, req, iters, divs, cont, pc>>

Init == /\ env \in [1..NCols -> [1..(MaxIters + 1) -> Kinds]]
        /\ col = 1 /\ req = 0 /\ iters = 0 /\ divs = [c \in 1..NCols |-> 0] /\ cont = FALSE /\ pc = "first"
\* env = interp_envelope(X[:, col]); continue iff an envelope exists
First == /\ pc = "first" /\ col <= NCols
         /\ req' = 1 /\ cont' = (env[col][1] # "none")
         /\ iters' = (IF "SharedBudget" \in Dev THEN iters ELSE 0)        \* iters = 0 for every column
         /\ pc' = "loop" /\ UNCHANGED <<env, col, divs>>
\* while continue_norm and iters < max_iters: divide, re-estimate, test
Iterate == /\ pc = "loop" /\ cont /\ iters < MaxIters
           /\ iters' = iters + 1 /\ divs' = [divs EXCEPT ![col] = @ + 1]
           /\ req' = req + 1
           /\ cont' = (env[col][req + 1] = "ok")          \* "none": no envelope; "flat": converged
           /\ UNCHANGED <<env, col, pc>>
NextCol == /\ pc = "loop" /\ ~(cont /\ iters < MaxIters)
           /\ col' = col + 1 /\ pc' = (IF col = NCols THEN "done" ELSE "first") /\ UNCHANGED <<env, req, iters, divs, cont>>
Next == First \/ Iterate \/ NextCol
Spec == Init /\ [][Next]_vars /\ WF_vars(Next)

\* the number of divisions a column must receive, from its own environment only
RECURSIVE Want(_, _)
Want(e, k) == IF k > MaxIters THEN MaxIters          \* budget exhausted
              ELSE IF e[k] = "ok" THEN Want(e, k + 1) ELSE k - 1
Expected(c) == IF env[c][1] = "none" THEN 0 ELSE IF MaxIters = 0 THEN 0 ELSE
               (IF env[c][2] = "ok" THEN (IF MaxIters = 1 THEN 1 ELSE Want(env[c], 3)) ELSE 1)
ColumnsIndependent == pc = "done" => \A c \in 1..NCols : divs[c] = Expected(c)
BudgetRespected == \A c \in 1..NCols : divs[c] <= MaxIters
Terminates == <>(pc = "done")
Json == INSTANCE Json
Export == pc = "done" => PrintT(<<"BEHAVIOUR", Json!ToJson([env |-> env, divs |-> divs])>>)
=============================================================================
