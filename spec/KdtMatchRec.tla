----------------------------- MODULE KdtMatchRec -----------------------------
(* Legs B/C for C17: recorded calls of the real kdt_match.  Integer instances are validated with *)
(* Valid itself; float instances with tables supplied by the harness from a brute-force distance *)
(* computation (closer[k] = number of rows of y strictly closer to x[xi[k]] than y[yi[k]];        *)
(* within[k] = the pair is not farther apart than the bound).                                    *)
EXTENDS KdtMatchDef, Json, IOUtils

Recs == JsonDeserialize(IOEnv.RECS_FILE)
VARIABLE ri
NB == 64
RInit == ri \in {-b : b \in 1..NB}
RNext == \/ ri < 0 /\ ri' \in {i \in 1..Len(Recs) : i % NB = (-ri) % NB}
         \/ ri > 0 /\ UNCHANGED ri
Bad(c) == PrintT(<<"BADREC", ri, c>>)
Ok(cond, c) == IF cond THEN TRUE ELSE Bad(c)
Plus1(q) == [k \in 1..Len(q) |-> q[k] + 1]

RecOK == ri > 0 =>
    LET r == Recs[ri] IN
    /\ Ok(r.raised = 0, "call.returns")
    /\ (r.raised = 0 =>
        /\ Ok(Len(r.xi) = Len(r.yi), "result.equally_long_index_lists")
        /\ Ok(Injective(r.xi), "result.no_row_of_x_twice")
        /\ Ok(Injective(r.yi), "result.no_row_of_y_twice")
        /\ Ok(\A k \in 1..Len(r.xi) : r.xi[k] \in 0..(r.nx - 1), "result.x_index_in_range")
        /\ Ok(\A k \in 1..Len(r.yi) : r.yi[k] \in 0..(r.ny - 1), "result.y_index_in_range")
        /\ IF r.kind = "int"
           THEN Ok((\A k \in 1..Len(r.yi) : r.yi[k] \in 0..(r.ny - 1) /\ r.xi[k] \in 0..(r.nx - 1)) =>
                    Valid(r.x, r.y, r.K, r.b2, Plus1(r.xi), Plus1(r.yi)), "result.valid_pairing")
           ELSE /\ Ok(\A k \in 1..Len(r.closer) : r.closer[k] < r.K, "result.partner_among_K_nearest")
                /\ Ok(\A k \in 1..Len(r.within) : r.within[k] = 1, "result.within_distance_bound"))
=============================================================================
