-------------------------------- MODULE Sift --------------------------------
(***************************************************************************)
(* The outer loop of the classic sift (emd.sift.sift, lines 451-487).      *)
(*                                                                         *)
(* Token maps over the integers:  <<c_x, c_1, ..., c_L>>  means            *)
(*    c_x X + sum_k c_k r_k                                                *)
(* where X is the input and r_k is whatever extraction k removed from its  *)
(* input (the sum of the step-scaled envelope means, see SiftLoop).        *)
(* An extraction applied to a signal p returns                             *)
(*    "imf"         p - r_k , continue flag TRUE                           *)
(*    "resid"       p itself, flag FALSE   (p has too few extrema)         *)
(*    "imf_energy"  p - r_k , flag FALSE   (energy threshold fired)        *)
(*    "raise"       convergence error                                      *)
(*    "lost"        p - r_k , flag FALSE   (only with the deviation        *)
(*                  FlagOnMidSiftExtremaLoss: the defect fixed in b626704) *)
(* The behaviour of the numeric kernel is an environment fixed at Init:    *)
(* Out[k] = outcome of the extraction at layer k, Small[k] = "the absolute *)
(* sum of IMF k is below sift_thresh".  Fixing it at Init lets capped and  *)
(* uncapped runs of the SAME input be compared (Prefix).                   *)
(***************************************************************************)
EXTENDS Integers, Sequences, FiniteSets, TLC

CONSTANTS MaxLayers,   \* the environment is forced to run out of extrema at this layer at the latest
          Caps,        \* set of max_imfs values explored; 0 stands for None
          Outcomes,    \* extraction outcomes the environment may produce
          Dev

VARIABLES Out, Small, cap,       \* environment and configuration (constant along a behaviour)
          pc, layer, imfs, resid, cont, nxt, reasons
vars == <<Out, Small, cap, pc, layer, imfs, resid, cont, nxt, reasons>>

L == MaxLayers
Zero == [i \in 1..(L + 1) |-> 0]
Unit(j) == [i \in 1..(L + 1) |-> IF i = j THEN 1 ELSE 0]
Add(a, b) == [i \in 1..(L + 1) |-> a[i] + b[i]]
Sub(a, b) == [i \in 1..(L + 1) |-> a[i] - b[i]]
X == Unit(1)
R(k) == Unit(k + 1)
RECURSIVE SumMaps(_)
SumMaps(q) == IF q = <<>> THEN Zero ELSE Add(Head(q), SumMaps(Tail(q)))

\* what extraction k returns when applied to p
ExtractOf(p, k, o) == IF o = "resid" THEN p ELSE Sub(p, R(k))
FlagOf(o) == o = "imf"

Init == /\ Out \in [1..L -> Outcomes] /\ Out[L] = "resid"
        /\ Small \in [1..L -> BOOLEAN]
        /\ cap \in Caps
        /\ pc = "extract" /\ layer = 0 /\ imfs = <<>> /\ resid = X /\ cont = TRUE /\ nxt = Zero /\ reasons = {}

\* next_imf, continue_sift = get_next_imf(proto_imf, ...)            (line 466)
Extract == /\ pc = "extract"
           /\ LET o == Out[layer + 1] IN
              IF o = "raise" THEN pc' = "raised" /\ UNCHANGED <<nxt, cont, reasons>>
              ELSE /\ nxt' = ExtractOf(resid, layer + 1, o)
                   /\ cont' = FlagOf(o)
                   /\ reasons' = reasons \cup (IF o = "imf_energy" THEN {"energy"} ELSE IF o = "resid" THEN {"noextrema"}
                                               ELSE IF o = "lost" THEN {"lost"} ELSE {})
                   /\ pc' = "append"
           /\ UNCHANGED <<Out, Small, cap, layer, imfs, resid>>
\* imf = concatenate((imf, next_imf)) ; proto_imf = X - imf.sum() ; layer += 1        (lines 471-477)
AppendRecompute == /\ pc = "append"
                   /\ imfs' = Append(imfs, nxt)
                   /\ resid' = Sub(X, SumMaps(Append(imfs, nxt)))
                   /\ layer' = layer + 1
                   /\ pc' = "captest"
                   /\ UNCHANGED <<Out, Small, cap, cont, nxt, reasons>>
\* if max_imfs is not None and layer == max_imfs                                       (line 479)
CapTest == /\ pc = "captest"
           /\ IF cap # 0 /\ layer = cap THEN cont' = FALSE /\ reasons' = reasons \cup {"cap"}
              ELSE UNCHANGED <<cont, reasons>>
           /\ pc' = "threshtest"
           /\ UNCHANGED <<Out, Small, cap, layer, imfs, resid, nxt>>
\* if np.abs(next_imf).sum() < sift_thresh                                              (line 483)
ThreshTest == /\ pc = "threshtest"
              /\ IF Small[layer] THEN cont' = FALSE /\ reasons' = reasons \cup {"thresh"}
                 ELSE UNCHANGED <<cont, reasons>>
              /\ pc' = IF cont' THEN "extract" ELSE "done"
              /\ UNCHANGED <<Out, Small, cap, layer, imfs, resid, nxt>>
Next == Extract \/ AppendRecompute \/ CapTest \/ ThreshTest
Spec == Init /\ [][Next]_vars /\ WF_vars(Next)
Finished == pc \in {"done", "raised"}

---------------------------------------------------------------------------
CutShort == reasons \cap {"cap", "thresh", "energy"} # {}
\* C01
RunningResidual == pc = "extract" => resid = Sub(X, SumMaps(imfs))
Complete == (pc = "done" /\ ~CutShort) => SumMaps(imfs) = X
\* ended of its own accord => the last column is a signal that itself lacked extrema
ResidualIsInput == (pc = "done" /\ ~CutShort) => (Out[layer] = "resid" /\ imfs[layer] = Sub(X, SumMaps(SubSeq(imfs, 1, layer - 1))))
\* C03
CapRespected == (pc = "done" /\ cap # 0) => Len(imfs) <= cap
Peel == \A k \in 1..Len(imfs) : imfs[k] = ExtractOf(Sub(X, SumMaps(SubSeq(imfs, 1, k - 1))), k, Out[k])
\* the uncapped run under the same environment, as a function
RECURSIVE RunFrom(_, _)
RunFrom(acc, k) ==       \* acc = IMFs so far, k = next layer; stops at the first non-continuing outcome / small IMF
    LET o == Out[k]  n == ExtractOf(Sub(X, SumMaps(acc)), k, o) IN
    IF o = "raise" THEN acc
    ELSE IF ~FlagOf(o) \/ Small[k] THEN Append(acc, n)
    ELSE RunFrom(Append(acc, n), k + 1)
Uncapped == RunFrom(<<>>, 1)
Prefix == pc = "done" => /\ imfs = SubSeq(Uncapped, 1, Len(imfs))
                         /\ Len(imfs) = (IF cap # 0 /\ cap < Len(Uncapped) THEN cap ELSE Len(Uncapped))
Terminates == <>Finished

\* every step of this model, projected on its control variables, is a step of SiftInd - the typed skeleton on which
\* Apalache proves CapRespected and the column bookkeeping inductively for EVERY cap        (intended design: Dev = {})
SI == INSTANCE SiftInd WITH ncols <- Len(imfs)
RefinesInd == [][SI!Next]_<<cap, pc, layer, Len(imfs), cont>>
IndInvHolds == SI!IndInv

W_Natural == ~(pc = "done" /\ ~CutShort /\ layer >= 3)
W_Capped == ~(pc = "done" /\ reasons = {"cap"})
Json == INSTANCE Json
Export == Finished => PrintT(<<"BEHAVIOUR", Json!ToJson([pc |-> pc, out |-> Out, small |-> Small, cap |-> cap, layer |-> layer,
                                                       imfs |-> imfs, reasons |-> reasons])>>)
=============================================================================
