------------------------------ MODULE CycleMaps ------------------------------
(* Leg A for C16: theorems about CycleMapsDef over an enumerated domain of structures.      *)
(* A structure = cycle lengths, gaps of unlabelled samples (before, between, after the      *)
(* cycles) and a boolean selection of cycles.                                               *)
EXTENDS CycleMapsDef

CONSTANTS KFull,   \* up to this many cycles: every composition of lengths 1..LMax and gaps 0..1 with <= NMax samples
          LMax, NMax,
          KMax     \* up to this many cycles: unit-length cycles with a few gap patterns, EVERY selection

VARIABLES cv, sel, full
vars == <<cv, sel, full>>

RECURSIVE SumSeq(_)
SumSeq(q) == IF q = <<>> THEN 0 ELSE Head(q) + SumSeq(Tail(q))
Rep(x, n) == [i \in 1..n |-> x]
RECURSIVE Build(_, _, _)
\* gaps has Len(lens)+1 entries
Build(lens, gaps, c) == IF c > Len(lens) THEN Rep(-1, gaps[c])
                        ELSE Rep(-1, gaps[c]) \o Rep(c - 1, lens[c]) \o Build(lens, gaps, c + 1)

GapPatterns(K) == {[i \in 1..(K+1) |-> 0], [i \in 1..(K+1) |-> IF i = 1 THEN 1 ELSE 0],
                   [i \in 1..(K+1) |-> IF i = K + 1 THEN 2 ELSE 0], [i \in 1..(K+1) |-> IF i = 4 THEN 1 ELSE 0]}
Structures(K) ==
    IF K <= KFull
    THEN {Build(l, g, 1) : <<l, g>> \in {x \in [1..K -> 1..LMax] \X [1..(K+1) -> 0..1] : SumSeq(x[1]) + SumSeq(x[2]) <= NMax}}
    ELSE {Build(Rep(1, K), g, 1) : g \in GapPatterns(K)}

\* seeds = every selection vector (cheap: theorems are stated on full states only); one Next step
\* attaches every structure with that many cycles, so that TLC's workers share the work.
Init == cv = <<>> /\ sel \in UNION {[1..k -> BOOLEAN] : k \in 1..KMax} /\ full = FALSE
Expand == /\ ~full /\ full' = TRUE
          /\ cv' \in Structures(Len(sel))
          /\ UNCHANGED sel
Next == Expand \/ (full /\ UNCHANGED vars)

N == NSamples(cv)
K == NCycles(cv)
S == NSubset(sel)
H == NChains(sel)
Samples == 0..(N-1)
Cycs == 0..(K-1)
Subs == 0..(S-1)
Chains == 0..(H-1)

\* --- C16: every map is defined on every existing item --------------------------------------
Total == full =>
    /\ \A s \in Samples : SampleToCycle(cv, s) \in Cycs \cup {None}
                       /\ SampleToSubset(cv, sel, s) \in Subs \cup {None}
                       /\ SampleToChain(cv, sel, s) \in Chains \cup {None}
    /\ \A c \in Cycs : CycleToSamples(cv, c) # {} /\ CycleToSamples(cv, c) \subseteq Samples
                    /\ CycleToSubset(sel, c) \in Subs \cup {None} /\ CycleToChain(sel, c) \in Chains \cup {None}
    /\ \A j \in Subs : SubsetToCycle(sel, j) \subseteq Cycs /\ Cardinality(SubsetToCycle(sel, j)) = 1
                    /\ SubsetToSamples(cv, sel, j) # {} /\ SubsetToChain(sel, j) \in Chains
    /\ \A h \in Chains : ChainToSubset(sel, h) # {} /\ ChainToSubset(sel, h) \subseteq Subs
                      /\ ChainToCycles(sel, h) # {} /\ ChainToCycles(sel, h) \subseteq Cycs
                      /\ ChainToSamples(cv, sel, h) # {}
\* --- round trips --------------------------------------------------------------------------
RoundTrips == full => \A s \in Samples :
    /\ SampleToCycle(cv, s) # None => s \in CycleToSamples(cv, SampleToCycle(cv, s))
    /\ SampleToSubset(cv, sel, s) # None => s \in SubsetToSamples(cv, sel, SampleToSubset(cv, sel, s))
    /\ SampleToChain(cv, sel, s) # None => s \in ChainToSamples(cv, sel, SampleToChain(cv, sel, s))
\* --- forward maps are None exactly for unlabelled samples / unselected cycles ----------------
NoneExactly == full =>
    /\ \A s \in Samples : (SampleToCycle(cv, s) = None) <=> (cv[s + 1] = -1)
    /\ \A s \in Samples : (SampleToSubset(cv, sel, s) = None) <=> (cv[s + 1] = -1 \/ ~sel[cv[s + 1] + 1])
    /\ \A s \in Samples : (SampleToChain(cv, sel, s) = None) <=> (SampleToSubset(cv, sel, s) = None)
    /\ \A c \in Cycs : (CycleToSubset(sel, c) = None) <=> ~sel[c + 1]
    /\ \A c \in Cycs : (CycleToChain(sel, c) = None) <=> ~sel[c + 1]
\* --- chains are the maximal runs of consecutive selected cycles ----------------------------------
ChainsAreMaximalRuns == full => \A h \in Chains :
    LET cs == ChainToCycles(sel, h) IN
    /\ cs = SetMin(cs)..SetMax(cs)
    /\ \A c \in cs : sel[c + 1]
    /\ (SetMin(cs) = 0 \/ ~sel[SetMin(cs)])              \* cycle before the run is unselected
    /\ (SetMax(cs) = K - 1 \/ ~sel[SetMax(cs) + 2])        \* cycle after the run is unselected
\* --- projections place each value on exactly the items that map to it ------------------------------
ChainVals == [h1 \in 1..H |-> 100 + h1 - 1]
SubVals == [j1 \in 1..S |-> 10 + j1 - 1]
Projections == full =>
    /\ \A s \in Samples : ProjChainToSamples(ChainVals, cv, sel)[s + 1] =
            (IF \E h \in Chains : s \in ChainToSamples(cv, sel, h)
             THEN 100 + (CHOOSE h \in Chains : s \in ChainToSamples(cv, sel, h)) ELSE Missing)
    /\ \A c \in Cycs : ProjChainToCycles(ChainVals, sel)[c + 1] =
            (IF \E h \in Chains : c \in ChainToCycles(sel, h)
             THEN 100 + (CHOOSE h \in Chains : c \in ChainToCycles(sel, h)) ELSE Missing)
    /\ \A s \in Samples : ProjSubsetToSamples(SubVals, cv, sel)[s + 1] =
            (IF \E j \in Subs : s \in SubsetToSamples(cv, sel, j)
             THEN 10 + (CHOOSE j \in Subs : s \in SubsetToSamples(cv, sel, j)) ELSE Missing)
    /\ \A c \in Cycs : ProjSubsetToCycles(SubVals, sel)[c + 1] =
            (IF \E j \in Subs : c \in SubsetToCycle(sel, j)
             THEN 10 + (CHOOSE j \in Subs : c \in SubsetToCycle(sel, j)) ELSE Missing)
\* vacuity witnesses (negations must be violated)
W_SingleCycleChain == ~(full /\ \E h \in Chains : Cardinality(ChainToCycles(sel, h)) = 1)
W_EmptySelection == ~(full /\ S = 0 /\ K > 0)
W_GapInsideChain == ~(full /\ \E h \in Chains : \E s \in Samples :
                        cv[s + 1] = -1 /\ s > SetMin(ChainToSamples(cv, sel, h)) /\ s < SetMax(ChainToSamples(cv, sel, h)))
=============================================================================
