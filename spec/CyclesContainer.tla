-------------------------- MODULE CyclesContainer --------------------------
(***************************************************************************)
(* The cycle container emd.cycles.Cycles: per-cycle metrics, subset        *)
(* selection by condition strings, chains, chain metrics, tabular export.  *)
(* Reference semantics over a lattice phase series (CyclesDef) with the    *)
(* index levels of CycleMapsDef.  All metric values are integers;          *)
(* "missing" (NaN in the code) is Missing = -1.                            *)
(* The slice cache (use_cache) is NOT part of the state: it must not       *)
(* matter, so the harness drives one object with and one without it        *)
(* through every history and compares both with this model.                *)
(***************************************************************************)
EXTENDS CyclesDef, CycleMapsDef

CONSTANTS MaxOps, Fam,
          Focus     \* 0: the full alphabet.  1: a reduced alphabet (re-computation of a metric used by a selection, re-selection,
                    \* chain timings, subset export) explored to a greater depth.  2: starting after compute_cycle_timings, two
                    \* different selections / chain timings / the same condition on chain_position evaluated again and again

\* phase series (lattice units, M = 24), one per family; every cycle but possibly the last ends beyond 3/2 pi
Phase == CASE Fam = 1 -> <<2, 8, 14, 22,  2, 9, 15, 22,  1, 9, 16, 23,  3, 12, 21>>
           [] Fam = 2 -> <<1, 12, 23,  1, 7, 13, 19, 23,  3, 10, 22,  1, 8, 16, 23,  0, 11, 22,  2>>
           [] Fam = 3 -> <<6, 13, 20, 23,  1, 9, 9, 22,  1, 6, 12, 19, 23,  2, 12, 21,  1, 10, 21>>
N == Len(Phase)
IdxVec == [i \in 1..N |-> i - 1]
ValVec == [i \in 1..N |-> ((7 * i) % 5) + (i % 3)]
Vec(v) == IF v = "idx" THEN IdxVec ELSE ValVec
PStep == 18          \* the default phase_step 3/2 pi
PEdge == 1           \* the default phase_edge pi/12

CV == CycleVector(Phase, PStep, PEdge, FALSE, NoMask(N))
K == NCycles(CV)
Samp(c) == {i \in 1..N : CV[i] = c}                        \* samples of cycle c (0-based c)
\* augmented cycle: from the first sample of the previous cycle beyond 3/2 pi to the end of the cycle
Aug(c) == IF c = 0 THEN {}
          ELSE LET cand == {i \in Samp(c - 1) : Phase[i] > 18} IN
               IF cand = {} THEN {} ELSE SetMin(cand)..SetMax(Samp(c))
RECURSIVE SumOver(_, _)
SumOver(S, vec) == IF S = {} THEN 0 ELSE LET a == SetMin(S) IN vec[a] + SumOver(S \ {a}, vec)
Stat(f, vec, S) == CASE f = "sum" -> SumOver(S, vec)
                     [] f = "max" -> SetMax({vec[i] : i \in S})
                     [] f = "len" -> Cardinality(S)
                     [] f = "first" -> vec[SetMin(S)]
                     [] f = "last" -> vec[SetMax(S)]
PerCycle(mode, f, vec) == [c1 \in 1..K |-> LET S == IF mode = "cycle" THEN Samp(c1 - 1) ELSE Aug(c1 - 1) IN
                                          IF S = {} THEN Missing ELSE Stat(f, vec, S)]

Names == <<"is_good", "m1", "m2", "m3", "start_sample", "stop_sample", "duration", "chain_ind",
           "chain_start", "chain_end", "chain_len_samples", "chain_len_cycles", "chain_position">>
NameSet == {Names[i] : i \in 1..Len(Names)}
Unset == <<>>

\* condition lists: <<name, comparator, twice the literal>>; a comparator ending in "+" compares with the literal PLUS a
\* tiny positive amount (written 4.000001 in the condition string): no integer metric equals such a literal
Conds == << << <<"is_good", "==", 2>> >>,
            << <<"duration", ">=", 8>> >>,
            << <<"duration", "<", 8>>, <<"is_good", "!=", 0>> >>,
            << <<"start_sample", ">", 6>> >>,
            << <<"m3", "<=", 2>> >>,
            << <<"m3", ">", 200>> >>,
            << <<"start_sample", ">=", 0>>, <<"duration", "!=", 6>>, <<"m3", "<", 6>> >>,
            << <<"chain_ind", ">", -2>> >>,
            << <<"duration", ">", 7>> >>,
            << <<"m1", ">", 20>> >>,
            << <<"m1", "<=", 21>>, <<"duration", "==", 8>> >>,
            << <<"chain_position", "==", 0>> >>,
            << <<"duration", "==+", 8>> >>,
            << <<"duration", "!=+", 8>>, <<"start_sample", "<=+", 16>>, <<"start_sample", ">+", 0>> >>,
            << <<"start_sample", "!=", 8>> >> >>       \* all cycles but the one starting at sample 4 (family 1: two chains, the second of two cycles)
Cmp(op, a2, l2) == CASE op = "==" -> a2 = l2 [] op = "!=" -> a2 # l2 [] op = "<" -> a2 < l2
                     [] op = "<=" -> a2 <= l2 [] op = ">" -> a2 > l2 [] op = ">=" -> a2 >= l2
                     [] op = "==+" -> FALSE [] op = "!=+" -> TRUE [] op = "<=+" -> a2 <= l2 [] op = ">+" -> a2 > l2

VARIABLES metrics,     \* [NameSet -> per-cycle sequence | Unset]
          picked,      \* index into Conds of the current selection, 0 = none
          subset, chain,   \* subset vector (per cycle) and chain vector (per subset cycle); <<>> before a selection
          lastExport,  \* rows (0-based cycle numbers) of the last tabular export
          hist
vars == <<metrics, picked, subset, chain, lastExport, hist>>

\* chain metrics are integers with a literal -1 outside every chain (an ordinary value); the others hold NaN where missing
ChainNames == {"chain_ind", "chain_start", "chain_end", "chain_len_samples", "chain_len_cycles", "chain_position"}
Usable(cs) == \A k \in 1..Len(cs) : /\ metrics[cs[k][1]] # Unset
                                      /\ (cs[k][1] \in ChainNames \/ \A c1 \in 1..K : metrics[cs[k][1]][c1] # Missing)
Matching(cs) == [c1 \in 1..K |-> \A k \in 1..Len(cs) : Cmp(cs[k][2], 2 * metrics[cs[k][1]][c1], cs[k][3])]
Good1(c1) == IF Good(Phase, Samp(c1 - 1), PEdge) THEN 1 ELSE 0

Init == /\ metrics = [n \in NameSet |-> CASE n = "is_good" -> [c1 \in 1..K |-> Good1(c1)]
                                            [] Focus = 2 /\ n = "start_sample" -> PerCycle("cycle", "first", IdxVec)
                                            [] Focus = 2 /\ n = "stop_sample" -> PerCycle("cycle", "last", IdxVec)
                                            [] Focus = 2 /\ n = "duration" -> PerCycle("cycle", "len", IdxVec)
                                            [] OTHER -> Unset]
        /\ picked = 0 /\ subset = <<>> /\ chain = <<>> /\ lastExport = <<>>
        /\ hist = IF Focus = 2 THEN << <<"timings", "-", "-", "-", "-">> >> ELSE <<>>
Bound == Len(hist) < MaxOps
Op(o) == hist' = Append(hist, o)
SetM(n, v) == metrics' = [metrics EXCEPT ![n] = v]

ComputeMetric(n, v, f, mode) == /\ Bound /\ SetM(n, PerCycle(mode, f, Vec(v)))
                                /\ Op(<<"compute", n, v, f, mode>>) /\ UNCHANGED <<picked, subset, chain, lastExport>>
AddMetric(ok) == /\ Bound /\ (IF ok THEN SetM("m3", [c1 \in 1..K |-> c1 - 1]) ELSE UNCHANGED metrics)
                 /\ Op(<<"add", "m3", IF ok THEN "ok" ELSE "wrong_length", "-", "-">>) /\ UNCHANGED <<picked, subset, chain, lastExport>>
ComputeTimings == /\ Bound
                  /\ metrics' = [metrics EXCEPT !["start_sample"] = PerCycle("cycle", "first", IdxVec),
                                                !["stop_sample"] = PerCycle("cycle", "last", IdxVec),
                                                !["duration"] = PerCycle("cycle", "len", IdxVec)]
                  /\ Op(<<"timings", "-", "-", "-", "-">>) /\ UNCHANGED <<picked, subset, chain, lastExport>>
PickSubset(j) == /\ Bound /\ Usable(Conds[j])
                 /\ LET sel == Matching(Conds[j]) IN
                    /\ picked' = j /\ subset' = SubsetVect(sel) /\ chain' = ChainVect(sel)
                    /\ SetM("chain_ind", [c1 \in 1..K |-> CycleToChain(sel, c1 - 1)])
                 /\ Op(<<"pick", j, "-", "-", "-">>) /\ UNCHANGED lastExport
\* chain metrics: per-chain value projected down to the cycles of the chain, -1 elsewhere
ChainMetric(sel, what) ==
    [c1 \in 1..K |-> LET h == CycleToChain(sel, c1 - 1) IN
        IF h = None THEN -1
        ELSE LET cs == ChainToCycles(sel, h)   ss == UNION {Samp(c) : c \in cs} IN
             CASE what = "chain_start" -> SetMin(ss) - 1
               [] what = "chain_end" -> SetMax(ss) - 1
               [] what = "chain_len_samples" -> Cardinality(ss)
               [] what = "chain_len_cycles" -> Cardinality(cs)
               [] what = "chain_position" -> (c1 - 1) - SetMin(cs)]
ComputeChainTimings == /\ Bound /\ picked # 0 /\ Usable(Conds[picked]) /\ NChains(Matching(Conds[picked])) > 0
                       /\ Matching(Conds[picked]) = [c1 \in 1..K |-> subset[c1] # -1]       \* selection still current
                       /\ LET sel == Matching(Conds[picked]) IN
                          metrics' = [n \in NameSet |-> IF n \in {"chain_start", "chain_end", "chain_len_samples", "chain_len_cycles", "chain_position"}
                                                         THEN ChainMetric(sel, n) ELSE metrics[n]]
                       /\ Op(<<"chain_timings", "-", "-", "-", "-">>) /\ UNCHANGED <<picked, subset, chain, lastExport>>
Rows(sel) == SortedSeq({c1 - 1 : c1 \in {d \in 1..K : sel[d]}})
Export(kind, j) == /\ Bound
                   /\ kind = "all" => (j = 0 /\ lastExport' = [c1 \in 1..K |-> c1 - 1])
                   /\ kind = "subset" => (j = 0 /\ picked # 0 /\ Usable(Conds[picked]) /\ lastExport' = Rows(Matching(Conds[picked])))
                   /\ kind = "conds" => (j # 0 /\ Usable(Conds[j]) /\ lastExport' = Rows(Matching(Conds[j])))
                   /\ Op(<<"export", kind, j, "-", "-">>) /\ UNCHANGED <<metrics, picked, subset, chain>>
FocusNext == \/ \E v \in {"idx", "val"} : \E f \in {"sum", "max"} : ComputeMetric("m1", v, f, "cycle")
             \/ ComputeTimings \/ ComputeChainTimings
             \/ \E j \in {10, 11} : PickSubset(j)
             \/ Export("subset", 0)
FullNext == \/ \E n \in {"m1", "m2"} : \E v \in {"idx", "val"} : \E f \in {"sum", "max", "len"} : \E mode \in {"cycle", "augmented"} : ComputeMetric(n, v, f, mode)
        \/ \E ok \in BOOLEAN : AddMetric(ok)
        \/ ComputeTimings \/ ComputeChainTimings
        \/ \E j \in 1..Len(Conds) : PickSubset(j) \/ Export("conds", j)
        \/ Export("all", 0) \/ Export("subset", 0)
Focus2Next == \/ ComputeChainTimings
              \/ \E j \in {2, 4, 15} : PickSubset(j)
              \/ Export("conds", 12)
Next == CASE Focus = 1 -> FocusNext [] Focus = 2 -> Focus2Next [] OTHER -> FullNext
Spec == Init /\ [][Next]_vars

\* C15
OneEntryPerCycle == \A n \in NameSet : metrics[n] = Unset \/ Len(metrics[n]) = K
\* right after a selection: the subset is exactly the matching cycles, numbered in order; chains are maximal runs
SubsetIsMatching == (Len(hist) > 0 /\ hist[Len(hist)][1] = "pick") =>
    LET sel == Matching(Conds[picked]) IN
    /\ \A c1 \in 1..K : (subset[c1] # -1) <=> sel[c1]
    /\ \A c1, d1 \in 1..K : (c1 < d1 /\ sel[c1] /\ sel[d1]) => subset[c1] < subset[d1]
    /\ {subset[c1] : c1 \in {d \in 1..K : sel[d]}} = 0..(NSubset(sel) - 1)
ChainsAreMaximalRuns == (Len(hist) > 0 /\ hist[Len(hist)][1] = "pick") =>
    LET sel == Matching(Conds[picked]) IN
    \A c1 \in 1..(K - 1) : (sel[c1] /\ sel[c1 + 1]) <=> (sel[c1] /\ sel[c1 + 1] /\ metrics["chain_ind"][c1] = metrics["chain_ind"][c1 + 1])
W_TwoChains == ~(picked # 0 /\ Len(chain) > 0 /\ chain[Len(chain)] >= 1)
\* a second chain with more than one cycle, after chain timings (positions within a later chain)
W_LongSecondChain == ~(\E c1 \in 1..K : metrics["chain_position"] # Unset /\ metrics["chain_position"][c1] >= 1 /\ metrics["chain_ind"] # Unset /\ metrics["chain_ind"][c1] >= 1)
W_EmptySelection == ~(picked # 0 /\ \A c1 \in 1..K : subset[c1] = -1)
Json == INSTANCE Json
Export_ == PrintT(<<"BEHAVIOUR", Json!ToJson([hist |-> hist, metrics |-> [i \in 1..Len(Names) |-> metrics[Names[i]]],
                                             subset |-> subset, chain |-> chain, lastExport |-> lastExport, picked |-> picked])>>)
=============================================================================
