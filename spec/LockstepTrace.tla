---------------------------- MODULE LockstepTrace ----------------------------
(***************************************************************************)
(* C02 as a LOCK-STEP PRODUCT of two executions of single-IMF extraction:  *)
(* run A on a signal x and run B on T(x), where T is a rescaling by c # 0  *)
(* (sign flip when c < 0) or time reversal.  Both runs are recorded event  *)
(* by event (as for SiftLoopTrace); the two event streams are zipped and   *)
(* one product event carries A's event, B's event and relational           *)
(* observations.  Run A must be a behaviour of SiftLoop; run B must make   *)
(* the SAME control decisions at every step and return T(A's result):      *)
(* bit-for-bit for c = +-2^k, to within rounding otherwise.                *)
(* If a decision of either run lies within rounding distance of its        *)
(* threshold (guard band) the pair becomes "excluded" from that point on:  *)
(* counted, never a violation.                                             *)
(* Product event: [a, b : SiftLoopTrace events or "End", near, swap,       *)
(*   npk_a, ntr_a, npk_b, ntr_b (interior extrema of the two iterates),    *)
(*   rel in {"bit_equal","close","far","n/a"}, need in {"bit","close"}]    *)
(***************************************************************************)
EXTENDS SiftLoop, Json, IOUtils

Traces == JsonDeserialize(IOEnv.TRACE_FILE)
VARIABLES tid, l, rejected, excluded, nexcluded,
          nearSeen      \* some decision of this pair so far lay within rounding distance of its threshold
tvars == <<vars, tid, l, rejected, excluded, nexcluded, nearSeen>>
NT == Len(Traces)
Ev == Traces[tid][l]
A == Ev.a
B == Ev.b
Clause(name, cond) == IF cond THEN TRUE ELSE PrintT(<<"FAILCLAUSE", tid, l, name>>) /\ FALSE
IsEvent(e) == tid <= NT /\ l <= Len(Traces[tid]) /\ ~excluded /\ A.e = e
Consume == l' = l + 1 /\ UNCHANGED <<tid, rejected, nexcluded>>
SameNear == UNCHANGED nearSeen
DummyCfg == [method |-> "sd", maxIters |-> 1, step |-> D, energy |-> FALSE, dev |-> {}]
\* the relational part: B mirrors A
SameKind == Clause("lockstep.same_event", B.e = A.e)
TInit == LoopInit /\ c = DummyCfg /\ tid = 1 /\ l = 1 /\ rejected = 0 /\ excluded = FALSE /\ nexcluded = 0 /\ nearSeen = FALSE

PBegin == /\ IsEvent("Begin") /\ l = 1 /\ SameKind
          /\ Clause("lockstep.same_configuration", B.method = A.method /\ B.max_iters = A.max_iters /\ B.step = A.step)
          /\ c' = [method |-> A.method, maxIters |-> A.max_iters, step |-> A.step, energy |-> A.energy = 1, dev |-> {}]
          /\ UNCHANGED <<lvars, excluded>> /\ Consume /\ SameNear
PTop == /\ IsEvent("Top") /\ SameKind /\ Top
        /\ Clause("lockstep.same_iteration", B.k = A.k /\ A.k = niters')
        /\ UNCHANGED <<c, excluded>> /\ Consume /\ SameNear
\* envelopes: under T the peaks and troughs correspond (swapped by a sign flip), so both runs agree on whether
\* envelopes exist - unless an extremum is decided by a comparison within rounding distance (near)
PEnv == /\ IsEvent("Env") /\ SameKind
        /\ IF Ev.near = 1 /\ (B.ok # A.ok \/ (IF Ev.swap = 1 THEN <<Ev.npk_b, Ev.ntr_b>> # <<Ev.ntr_a, Ev.npk_a>> ELSE <<Ev.npk_b, Ev.ntr_b>> # <<Ev.npk_a, Ev.ntr_a>>))
           THEN excluded' = TRUE /\ UNCHANGED <<lvars, c>>
           ELSE /\ Clause("lockstep.extrema_correspond", IF Ev.swap = 1 THEN Ev.npk_b = Ev.ntr_a /\ Ev.ntr_b = Ev.npk_a
                                                                          ELSE Ev.npk_b = Ev.npk_a /\ Ev.ntr_b = Ev.ntr_a)
                /\ Clause("lockstep.same_envelope_existence", B.ok = A.ok)
                /\ (IF A.ok = 1 THEN EnvOK ELSE EnvMissing)
                /\ UNCHANGED <<c, excluded>>
        /\ Consume /\ nearSeen' = (nearSeen \/ Ev.near = 1)
PStop == /\ IsEvent("Stop") /\ SameKind
         /\ IF (A.near = 1 \/ B.near = 1) /\ B.fired # A.fired
            THEN excluded' = TRUE /\ UNCHANGED <<lvars, c>>
            ELSE /\ Clause("lockstep.same_stop_decision", B.fired = A.fired)
                 /\ StopRule(A.fired = 1) /\ UNCHANGED <<c, excluded>>
         /\ Consume /\ nearSeen' = (nearSeen \/ A.near = 1 \/ B.near = 1)
PEnergy == /\ IsEvent("Energy") /\ SameKind
           /\ Clause("lockstep.same_energy_decision", B.fired = A.fired)
           /\ EnergyTest(A.fired = 1) /\ UNCHANGED <<c, excluded>> /\ Consume /\ SameNear
PRet == /\ IsEvent("Ret") /\ SameKind
        /\ Clause("lockstep.in_return_state", pc = "ret")
        /\ Clause("lockstep.same_flag", B.flag = A.flag /\ (A.flag = 1) = flag)
        /\ Clause("lockstep.result_is_transformed_result",
                  IF Ev.need = "bit" THEN Ev.rel = "bit_equal" ELSE Ev.rel \in {"bit_equal", "close"})
        /\ UNCHANGED <<vars, excluded>> /\ Consume /\ SameNear
PRaise == /\ IsEvent("Raise") /\ SameKind
          /\ Clause("lockstep.same_error", B.type = A.type)
          /\ Top /\ Clause("lockstep.raise_only_beyond_limit", pc' = "raised")
          /\ UNCHANGED <<c, excluded>> /\ Consume /\ SameNear
TSteps == PBegin \/ PTop \/ PEnv \/ PStop \/ PEnergy \/ PRet \/ PRaise
Fresh == /\ pc' = "top" /\ niters' = 0 /\ proto' = <<D>> /\ flag' = TRUE /\ stopAt' = 0 /\ missAt' = 0
         /\ fired' = {} /\ evald' = {} /\ efired' = "n/a" /\ c' = DummyCfg /\ excluded' = FALSE /\ nearSeen' = FALSE
NextTrace == /\ tid <= NT /\ (excluded \/ l = Len(Traces[tid]) + 1)
             /\ tid' = tid + 1 /\ l' = 1 /\ UNCHANGED rejected
             /\ nexcluded' = nexcluded + (IF excluded THEN 1 ELSE 0) /\ Fresh
\* a divergence AFTER a decision within rounding distance of its threshold is the measured guard band, not a violation
ExcludeNear == /\ tid <= NT /\ ~excluded /\ nearSeen /\ ~ENABLED (TSteps \/ NextTrace)
               /\ excluded' = TRUE /\ UNCHANGED <<vars, tid, l, rejected, nexcluded, nearSeen>>
Reject == /\ tid <= NT /\ ~nearSeen /\ ~ENABLED (TSteps \/ NextTrace)
          /\ PrintT(<<"REJECTED", tid, l>>)
          /\ rejected' = rejected + 1 /\ tid' = tid + 1 /\ l' = 1 /\ UNCHANGED nexcluded /\ Fresh
Finish == /\ tid = NT + 1 /\ l = 1 /\ PrintT(<<"TRACESUMMARY", NT, rejected, nexcluded>>)
          /\ l' = 2 /\ UNCHANGED <<vars, tid, rejected, excluded, nexcluded, nearSeen>>
TNext == TSteps \/ NextTrace \/ ExcludeNear \/ Reject \/ Finish
TraceSpec == TInit /\ [][TNext]_tvars
=============================================================================
