"""Observation wrappers and scripted kernels for the sift family.

Nothing in /repo is edited: emd.sift looks its collaborators up by module-global name
(interp_envelope, sd_stop, rilling_stop, fixed_stop, _energy_difference, get_next_imf, ...), so the
harness rebinds those names.  Forked pool workers inherit the bindings.

Recorder      : records one event trace per real get_next_imf call (Leg C).
ScriptedKernel: replaces the numeric kernels by stubs that follow a script taken from a TLC
                behaviour, so that every control path of the unmodified loops can be driven (Leg B).
"""
import copy
import inspect
import os
from fractions import Fraction

import numpy as np

D = 12
_NAMES = ('get_next_imf', 'interp_envelope', 'sd_stop', 'rilling_stop', 'fixed_stop', '_energy_difference')


def step12(step):
    """env_step_size as an integer multiple of 1/12, or None if it is not one"""
    f = Fraction(float(step)).limit_denominator(D)
    if abs(float(f) - float(step)) > 1e-15 or (f * D).denominator != 1:
        return None
    return int(f * D)


class Recorder:
    """Context manager recording SiftLoopTrace events for every get_next_imf call."""

    def __init__(self, emd, keep_arrays=False, keep_iterates=False, check_env=False):
        self.keep_iter = keep_iterates
        self.check_env = check_env      # re-build every envelope from the options configured at the call's entry
        self.sift = emd.sift
        self.support = emd.support
        self.traces = []          # finished traces (lists of events)
        self.meta = []            # per trace: dict(ret=..., flag=..., raised=...)
        self.cur = None
        self.keep = keep_arrays

    # -- install / remove ------------------------------------------------
    def __enter__(self):
        self.orig = {n: getattr(self.sift, n) for n in _NAMES}
        self.sig = inspect.signature(self.orig['get_next_imf'])
        s = self.sift
        s.get_next_imf = self._get_next_imf
        s.interp_envelope = self._interp_envelope
        s.sd_stop = self._sd_stop
        s.rilling_stop = self._rilling_stop
        s.fixed_stop = self._fixed_stop
        s._energy_difference = self._energy_difference
        return self

    def __exit__(self, *a):
        for n, f in self.orig.items():
            setattr(self.sift, n, f)

    # -- wrappers ----------------------------------------------------------
    def _get_next_imf(self, *a, **k):
        b = self.sig.bind(*a, **k)
        b.apply_defaults()
        p = b.arguments
        X = np.asarray(p['X'])
        st = step12(p['env_step_size'])
        c = {'ev': [], 'k': 0, 'step': p['env_step_size'], 'maxit': p['max_iters'], 'method': p['stop_method'],
             'sd': p['sd_thresh'], 'ril': p['rilling_thresh'], 'eth': p['energy_thresh'], 'p': None, 'avg': None,
             'prev_p': None, 'prev_avg': None, 'upper': None, 'lower': None, 'traceable': st is not None,
             'X': X.reshape(X.shape[0], -1).copy() if X.ndim >= 1 else X, 'cfg_ok': 1,
             'eo': copy.deepcopy(p['envelope_opts'] or {}), 'xo': copy.deepcopy(p['extrema_opts'] or {})}
        c['ev'].append({'e': 'Begin', 'method': str(p['stop_method']), 'max_iters': int(p['max_iters']),
                        'step': st if st is not None else -1, 'energy': int(p['energy_thresh'] is not None),
                        # a single signal: a vector, or an array whose trailing dimensions are all one
                        'valid_layout': int(X.ndim >= 1 and all(d == 1 for d in X.shape[1:]))})
        outer, self.cur = self.cur, c
        meta = {'raised': None, 'flag': None, 'ret': None, 'n': int(X.shape[0])}
        try:
            ret, flag = self.orig['get_next_imf'](*a, **k)
        except BaseException as e:
            c['ev'].append({'e': 'Raise', 'type': type(e).__name__})
            meta['raised'] = type(e).__name__
            if self.keep_iter:
                meta['iterates'] = c.get('iterates', [])
            self._finish(c, meta)
            self.cur = outer
            raise
        pl, al = c['p'], c['avg']
        r2 = np.asarray(ret)
        def eq(x):
            return int(x is not None and x.shape == r2.shape and np.array_equal(x, r2))
        ev = {'e': 'Ret', 'flag': int(bool(flag)),
              'eq_full': eq(pl - al) if (pl is not None and al is not None) else 0,
              'eq_none': eq(pl) if pl is not None else 0,
              'eq_step': eq(pl - (c['step'] * al)) if (pl is not None and al is not None) else 0,
              'eq_input': eq(c['X']) if c['X'].ndim == 2 else 0}
        c['ev'].append(ev)
        meta['flag'] = bool(flag)
        if self.keep:
            meta['ret'] = r2.copy()
            meta['X'] = c['X']
        if self.keep_iter:
            meta['iterates'] = c.get('iterates', [])
        self._finish(c, meta)
        self.cur = outer
        return ret, flag

    def _finish(self, c, meta):
        meta['traceable'] = c['traceable']
        meta['niters'] = c['k']
        ev = c['ev']
        meta['kind'] = ('resid' if any(e['e'] == 'Env' and e['k'] == 1 and e['ok'] == 0 for e in ev)
                        else 'energy' if any(e['e'] == 'Energy' and e['fired'] for e in ev) else 'imf')
        self.traces.append(c['ev'])
        self.meta.append(meta)

    def _interp_envelope(self, X, *a, **k):
        c = self.cur
        mode = k.get('mode', a[0] if a else 'upper')
        if c is None or mode not in ('upper', 'lower'):
            return self.orig['interp_envelope'](X, *a, **k)
        if mode == 'upper':
            c['k'] += 1
            c['prev_p'], c['prev_avg'] = c['p'], c['avg']
            c['p'] = np.array(X, copy=True)
            if self.keep_iter:
                c.setdefault('iterates', []).append(c['p'])
            c['avg'] = None
            c['ev'].append({'e': 'Top', 'k': c['k']})
            out = self.orig['interp_envelope'](X, *a, **k)
            c['upper'] = out
            c['cfg_ok'] = self._as_configured(c, X, mode, out)
            return out
        out = self.orig['interp_envelope'](X, *a, **k)
        c['lower'] = out
        c['cfg_ok'] = int(c['cfg_ok'] and self._as_configured(c, X, mode, out))
        ok = c['upper'] is not None and out is not None
        iter_ok = 1
        if c['k'] > 1:
            exp = c['prev_p'] - (c['step'] * c['prev_avg']) if c['prev_avg'] is not None else None
            iter_ok = int(exp is not None and exp.shape == c['p'].shape and np.array_equal(exp, c['p']))
        else:
            iter_ok = int(c['X'].shape == c['p'].shape and np.array_equal(c['X'], c['p']))
        if ok:
            c['avg'] = np.mean([c['upper'], out], axis=0)[:, None]
        few = 1
        if not ok:
            # "too few extrema to define envelopes": fewer than two strict maxima or fewer than two strict minima
            v = np.asarray(c['p'], float).ravel()
            nmax = int(np.sum((v[1:-1] > v[:-2]) & (v[1:-1] > v[2:]))) if v.size >= 3 else 0
            nmin = int(np.sum((v[1:-1] < v[:-2]) & (v[1:-1] < v[2:]))) if v.size >= 3 else 0
            few = int(nmax < 2 or nmin < 2)
        c['ev'].append({'e': 'Env', 'k': c['k'], 'ok': int(ok), 'iter_ok': iter_ok, 'cfg_ok': c['cfg_ok'], 'few': few})
        return out

    def _as_configured(self, c, X, mode, out):
        """1 iff the envelope the loop obtained equals the one built from the options as configured at entry."""
        if not self.check_env:
            return 1
        try:
            ref = self.orig['interp_envelope'](np.array(X, copy=True), mode=mode, **copy.deepcopy(c['eo']), extrema_opts=copy.deepcopy(c['xo']))
        except Exception:
            return 0
        if ref is None or out is None:
            return int(ref is None and out is None)
        return int(np.shape(ref) == np.shape(out) and np.array_equal(ref, out, equal_nan=True))

    def _stop_event(self, fired, indep, near):
        c = self.cur
        c['ev'].append({'e': 'Stop', 'k': c['k'], 'fired': int(bool(fired)), 'indep': int(bool(indep)), 'near': int(near)})

    def _sd_stop(self, *a, **k):
        out = self.orig['sd_stop'](*a, **k)
        c = self.cur
        if c is not None and c['avg'] is not None:
            with np.errstate(all='ignore'):
                # (the documented ratio, in floating point whatever dtype the signal is stored in: squares of small
                #  integer types wrap around)
                m = float(np.sum(np.asarray(c['avg'], float) ** 2) / np.sum(np.asarray(c['p'], float) ** 2))
            thr = float(c['sd'])
            near = (not np.isfinite(m)) or abs(m - thr) <= 1e-9 * max(abs(thr), 1e-300)
            self._stop_event(out[0], m < thr, near)
        return out

    def _rilling_stop(self, *a, **k):
        out = self.orig['rilling_stop'](*a, **k)
        c = self.cur
        if c is not None and c['upper'] is not None and c['lower'] is not None:
            sd1, sd2, tol = [float(v) for v in c['ril']]
            with np.errstate(all='ignore'):
                u, lo = np.asarray(c['upper'], float), np.asarray(c['lower'], float)
                E = np.abs((u + lo) / 2) / (np.abs(u - lo) / 2)
                frac = float(np.mean(E > sd1))
                big = bool(np.any(E > sd2))
                indep = not (frac > tol or big)
                # (the fraction is a count divided by N: exact, so a fraction EQUAL to tol is decided, not excluded)
                near = (not np.all(np.isfinite(E))) or \
                    bool(np.any(np.abs(E - sd1) <= 1e-9 * sd1)) or bool(np.any(np.abs(E - sd2) <= 1e-9 * sd2))
            self._stop_event(out[0], indep, near)
        return out

    def _fixed_stop(self, *a, **k):
        out = self.orig['fixed_stop'](*a, **k)
        c = self.cur
        if c is not None:
            self._stop_event(out, c['k'] == c['maxit'], 0)
        return out

    def _energy_difference(self, *a, **k):
        out = self.orig['_energy_difference'](*a, **k)
        c = self.cur
        if c is not None and c['eth'] is not None:
            c['ev'].append({'e': 'Energy', 'fired': int(bool(out > c['eth']))})
        return out


class ScriptedKernel:
    """Drive the unmodified loops down a scripted path.

    script: list (one entry per extraction, in call order) of dicts
        {'niters': n, 'missAt': k or 0, 'stopAt': k or 0, 'efired': 'yes'|'no'|'n/a', 'small': bool}
    Envelopes returned by the stub are fixed pseudo-random arrays (the tokens m_j); with
    'small' the envelopes are the current iterate itself, so the extracted IMF is exactly zero.
    After the run: self.calls[e] = number of envelope requests of extraction e,
    self.means[e][j] = the mean array m_j of extraction e, self.inputs[e] = its input."""

    def __init__(self, emd, script, n, seed=0, miss_side=0):
        self.sift = emd.sift
        self.script = script
        self.n = n
        self.seed = seed
        self.miss_side = miss_side
        self.e = -1
        self.k = 0
        self.calls = []
        self.means = []
        self.inputs = []
        self.overrun = False

    def __enter__(self):
        self.orig = {n: getattr(self.sift, n) for n in _NAMES}
        s = self.sift
        s.get_next_imf = self._get_next_imf
        s.interp_envelope = self._interp_envelope
        s.sd_stop = self._stop
        s.rilling_stop = self._stop
        s._energy_difference = self._energy_difference
        return self

    def __exit__(self, *a):
        for n, f in self.orig.items():
            setattr(self.sift, n, f)

    def _cur(self):
        if self.e < len(self.script):
            return self.script[self.e]
        self.overrun = True          # the code asked for more extractions than the behaviour has
        return {'niters': 1, 'missAt': 1, 'stopAt': 0, 'efired': 'n/a', 'small': False}

    def _get_next_imf(self, X, *a, **k):
        self.e += 1
        self.k = 0
        self.calls.append(0)
        self.means.append({})
        self.inputs.append(np.array(X, copy=True))
        return self.orig['get_next_imf'](X, *a, **k)

    def _interp_envelope(self, X, *a, **k):
        mode = k.get('mode', a[0] if a else 'upper')
        if self.e < 0:                       # called outside any extraction: not scripted
            return self.orig['interp_envelope'](X, *a, **k)
        sc = self._cur()
        self.calls[self.e] += 1
        if mode == 'upper':
            self.k += 1
        kk = self.k
        if kk > 400:
            raise RuntimeError('scripted kernel: runaway loop')
        if sc['missAt'] == kk:
            side = (self.miss_side + self.e + kk) % 3       # 0: lower missing, 1: upper missing, 2: both
            if (mode == 'upper' and side in (1, 2)) or (mode == 'lower' and side in (0, 2)):
                return None
        if sc.get('small') and sc['stopAt'] == kk:
            env = np.array(X, dtype=float).reshape(-1).copy()      # mean == iterate  =>  IMF == 0
        else:
            rng = np.random.RandomState((self.seed * 1000003 + self.e * 1009 + kk * 17 + (mode == 'lower')) % (2 ** 31))
            env = rng.randn(self.n) + (1.0 if mode == 'upper' else -1.0)
        m = self.means[self.e].setdefault(kk, {})
        m[mode] = env
        return env

    def mean(self, e, k):
        m = self.means[e][k]
        return np.mean([m['upper'], m['lower']], axis=0)[:, None]

    def _stop(self, *a, **k):
        sc = self._cur()
        return (sc['stopAt'] == self.k), 0.0

    def _energy_difference(self, *a, **k):
        sc = self._cur()
        return np.inf if sc['efired'] == 'yes' else -np.inf


# ---------------------------------------------------------------------------------------------
# Scripted worker pool (real fork) and noise tracing for the ensemble / masked sifts

import json as _json
import multiprocessing as _mp

_ORIG = {}
_TRACE_DIR = None
_CUR_JOB = None
_NCALL = 0


def _traced_sift_with_noise(*args, **kw):
    """module-level (hence picklable) wrapper: remembers which ensemble member this worker is running"""
    global _CUR_JOB, _NCALL
    _CUR_JOB = args[6] if len(args) > 6 else kw.get('job_ind')
    _NCALL = 0
    try:
        return _ORIG['_sift_with_noise'](*args, **kw)
    finally:
        _CUR_JOB = None


def _traced_sift(X, *args, **kw):
    """module-level wrapper around emd.sift.sift: logs the array a member is sifted with"""
    global _NCALL
    if _CUR_JOB is not None and _TRACE_DIR:
        _NCALL += 1
        with open(os.path.join(_TRACE_DIR, '%d.ndjson' % os.getpid()), 'a') as f:
            import time as _time
            f.write(_json.dumps({'job': int(_CUR_JOB), 'pid': os.getpid(), 'call': _NCALL, 't': _time.monotonic_ns(),
                                 'x': [float(v) for v in np.asarray(X).ravel()]}) + '\n')
    return _ORIG['sift'](X, *args, **kw)


class NoiseTrace:
    """Context manager: trace (member, pid, array sifted) for every ensemble member, in all processes."""

    def __init__(self, emd, trace_dir):
        self.sift = emd.sift
        self.dir = trace_dir

    def __enter__(self):
        global _TRACE_DIR
        os.makedirs(self.dir, exist_ok=True)
        for f in os.listdir(self.dir):
            os.unlink(os.path.join(self.dir, f))
        _TRACE_DIR = self.dir
        _ORIG['_sift_with_noise'] = self.sift._sift_with_noise
        _ORIG['sift'] = self.sift.sift
        self.sift._sift_with_noise = _traced_sift_with_noise
        self.sift.sift = _traced_sift
        return self

    def __exit__(self, *a):
        global _TRACE_DIR
        self.sift._sift_with_noise = _ORIG['_sift_with_noise']
        self.sift.sift = _ORIG['sift']
        _TRACE_DIR = None

    def read(self):
        ev = []
        for f in sorted(os.listdir(self.dir)):
            for line in open(os.path.join(self.dir, f)):
                ev.append(_json.loads(line))
        return ev


def _worker_loop(conn):
    while True:
        msg = conn.recv()
        if msg is None:
            break
        idx, fn, args = msg
        try:
            conn.send((idx, True, fn(*args)))
        except BaseException as e:
            conn.send((idx, False, e))
    conn.close()


class ScriptedPool:
    """Stand-in for multiprocessing.Pool that REALLY forks `processes` workers at construction (so that
    process-global state - numpy's random generator, wrappers, the logger - is duplicated exactly as with the
    real pool) and then runs job i on worker assign(i) and collects completions in a prescribed order.
    The schedule is taken from the class attribute `schedule`:  dict(assigned=[worker per job, 1-based],
    order=[job completion order, 1-based]); jobs beyond the schedule length wrap around."""
    schedule = None
    log = []

    def __init__(self, processes=None, *a, **k):
        self.w = int(processes or 1)
        ctx = _mp.get_context('fork')
        self.conns, self.procs = [], []
        for i in range(self.w):
            pc, cc = ctx.Pipe()
            # daemonic, like the workers of the real multiprocessing.Pool: if the code under test raises out of starmap
            # without closing its pool, the workers must not keep the calling process from exiting
            p = ctx.Process(target=_worker_loop, args=(cc,), daemon=True)
            p.start()
            cc.close()
            self.conns.append(pc)
            self.procs.append(p)

    def starmap(self, fn, iterable, chunksize=None):
        jobs = [tuple(a) for a in iterable]
        sch = type(self).schedule or {}
        asg = sch.get('assigned') or [1]
        worker_of = [(asg[i % len(asg)] - 1) % self.w for i in range(len(jobs))]
        for i, a in enumerate(jobs):
            self.conns[worker_of[i]].send((i, fn, a))
        order = [j - 1 for j in (sch.get('order') or []) if j - 1 < len(jobs)]
        order += [i for i in range(len(jobs)) if i not in order]
        # completions are received worker by worker in the prescribed order (each worker is FIFO)
        res = [None] * len(jobs)
        got = {}
        for i in order:
            while i not in got:
                idx, ok, val = self.conns[worker_of[i]].recv()
                got[idx] = (ok, val)
        type(self).log.append({'njobs': len(jobs), 'workers': self.w, 'worker_of': worker_of, 'order': order})
        for i in range(len(jobs)):
            ok, val = got[i]
            if not ok:
                self.close()
                raise val
            res[i] = val            # results are stored by job index
        return res

    def map(self, fn, iterable, chunksize=None):
        return self.starmap(fn, [(a,) for a in iterable])

    def close(self):
        for c in self.conns:
            try:
                c.send(None)
            except Exception:
                pass
        for p in self.procs:
            p.join(10)
        self.conns, self.procs = [], []

    terminate = close

    def join(self):
        pass

    def __enter__(self):
        return self

    def __exit__(self, *a):
        self.close()

    def __del__(self):
        try:
            self.close()
        except Exception:
            pass


class _MpShim:
    """what emd.sift sees as `mp` while a scripted pool is installed"""
    def __init__(self):
        self.Pool = ScriptedPool
        self.current_process = _mp.current_process


class UseScriptedPool:
    def __init__(self, emd, schedule):
        self.sift = emd.sift
        self.schedule = schedule

    def __enter__(self):
        self.orig = self.sift.mp
        ScriptedPool.schedule = self.schedule
        ScriptedPool.log = []
        self.sift.mp = _MpShim()
        return self

    def __exit__(self, *a):
        self.sift.mp = self.orig
        ScriptedPool.schedule = None


# ---------------------------------------------------------------------------------------------
# tracing of the arrays handed to get_next_imf (masked sift jobs run in pool workers)

def _traced_gni(X, *args, **kw):
    if _TRACE_DIR:
        with open(os.path.join(_TRACE_DIR, 'gni-%d.ndjson' % os.getpid()), 'a') as f:
            f.write(_json.dumps({'pid': os.getpid(), 'x': [float(v) for v in np.asarray(X).ravel()]}) + '\n')
    return _ORIG['get_next_imf'](X, *args, **kw)


class InputTrace:
    """trace every array passed to emd.sift.get_next_imf, in all processes"""

    def __init__(self, emd, trace_dir):
        self.sift = emd.sift
        self.dir = trace_dir

    def __enter__(self):
        global _TRACE_DIR
        os.makedirs(self.dir, exist_ok=True)
        for f in os.listdir(self.dir):
            os.unlink(os.path.join(self.dir, f))
        _TRACE_DIR = self.dir
        _ORIG['get_next_imf'] = self.sift.get_next_imf
        self.sift.get_next_imf = _traced_gni
        return self

    def __exit__(self, *a):
        global _TRACE_DIR
        self.sift.get_next_imf = _ORIG['get_next_imf']
        _TRACE_DIR = None

    def read(self):
        ev = []
        for f in sorted(os.listdir(self.dir)):
            for line in open(os.path.join(self.dir, f)):
                ev.append(_json.loads(line))
        return ev


# ---------------------------------------------------------------------------------------------
# C06: effective options received by the three stage functions, in every process

import sys as _sys


def _jsonable(v):
    if isinstance(v, dict):
        return {str(k): _jsonable(x) for k, x in v.items()}
    if isinstance(v, (list, tuple)):
        return [_jsonable(x) for x in v]
    if isinstance(v, np.ndarray):
        return '<array>'
    if isinstance(v, (np.integer,)):
        return int(v)
    if isinstance(v, (np.floating,)):
        return float(v)
    if v is None or isinstance(v, (bool, int, float, str)):
        return v
    return repr(v)


def _opt_log(stage, args, kw, depth=2):
    if not _TRACE_DIR:
        return
    try:
        b = inspect.signature(_ORIG[stage]).bind(*args, **kw)
        b.apply_defaults()
        eff = {k: _jsonable(v) for k, v in b.arguments.items() if k != 'X'}
    except TypeError as e:
        eff = {'bind_error': str(e)}
    caller = _sys._getframe(depth).f_code.co_name
    with open(os.path.join(_TRACE_DIR, 'opt-%d.ndjson' % os.getpid()), 'a') as f:
        f.write(_json.dumps({'stage': stage, 'caller': caller, 'pid': os.getpid(), 'eff': eff}) + '\n')


def _opt_gni(*a, **k):
    _opt_log('get_next_imf', a, k)
    return _ORIG['get_next_imf'](*a, **k)


def _opt_ie(*a, **k):
    _opt_log('interp_envelope', a, k)
    return _ORIG['interp_envelope'](*a, **k)


def _opt_gpe(*a, **k):
    _opt_log('get_padded_extrema', a, k)
    return _ORIG['get_padded_extrema'](*a, **k)


class OptionTrace:
    def __init__(self, emd, trace_dir):
        self.sift = emd.sift
        self.dir = trace_dir

    def __enter__(self):
        global _TRACE_DIR
        os.makedirs(self.dir, exist_ok=True)
        for f in os.listdir(self.dir):
            os.unlink(os.path.join(self.dir, f))
        _TRACE_DIR = self.dir
        for n, w in (('get_next_imf', _opt_gni), ('interp_envelope', _opt_ie), ('get_padded_extrema', _opt_gpe)):
            _ORIG[n] = getattr(self.sift, n)
            setattr(self.sift, n, w)
        return self

    def __exit__(self, *a):
        global _TRACE_DIR
        for n in ('get_next_imf', 'interp_envelope', 'get_padded_extrema'):
            setattr(self.sift, n, _ORIG[n])
        _TRACE_DIR = None

    def read(self):
        ev = []
        for f in sorted(os.listdir(self.dir)):
            for line in open(os.path.join(self.dir, f)):
                ev.append(_json.loads(line))
        return ev


class InlinePool:
    """A pool stand-in that runs every job in the calling process (so that recorders installed there see them)."""
    def __init__(self, processes=None, *a, **k):
        pass

    def starmap(self, fn, iterable, chunksize=None):
        return [fn(*a) for a in iterable]

    def map(self, fn, iterable, chunksize=None):
        return [fn(a) for a in iterable]

    def close(self):
        pass
    terminate = join = close

    def __enter__(self):
        return self

    def __exit__(self, *a):
        pass


class UseInlinePool:
    def __init__(self, emd):
        self.sift = emd.sift

    def __enter__(self):
        self.orig = self.sift.mp
        shim = _MpShim()
        shim.Pool = InlinePool

        class _Worker:           # jobs run in this process: it plays "worker 1" (the code reads current_process()._identity[0])
            _identity = (1,)
            name = 'InlineWorker-1'
        shim.current_process = lambda: _Worker
        self.sift.mp = shim
        return self

    def __exit__(self, *a):
        self.sift.mp = self.orig
