"""C08: ensemble sifts average genuinely independent noise realisations.

Leg A : TLC checks DistinctNoise / ResultIsMean / termination of spec/Ensemble.tla for all
        dispatch interleavings (jobs <= 4, workers <= 3, both noise modes); the historical
        draw-in-the-worker design is shown to violate DistinctNoise (fork copies the generator).
Leg B : every (assignment, completion order) schedule exported by TLC is forced onto the real
        ensemble_sift / complete_ensemble_sift through a forking ScriptedPool; the noise each member
        was sifted with is traced inside the workers.
Leg C : the real multiprocessing pool, nprocesses 1..8 x nensembles 1..8 x modes x noise levels.
Both produce one record per run, validated by TLC against spec/EnsembleRec.tla.
"""
import hashlib
import os

import numpy as np

from .. import core
from ..core import Ctx, MachineryError
from ..instrument import NoiseTrace, UseScriptedPool
from .sift_check import parse_behaviours

LEVELS = {0: 0.0, 1: 0.05, 2: 1.0}


def one_run(emd, variant, x, nens, nproc, mode, level, seed, schedule, tdir, cap=2):
    fn = getattr(emd.sift, variant)
    kw = dict(nensembles=nens, nprocesses=nproc, noise_mode=mode, ensemble_noise=LEVELS[level],
              max_imfs=(1 if variant == 'complete_ensemble_sift' else cap))
    rec = {'kind': 'run', 'variant': variant, 'nens': nens, 'nproc': nproc, 'mode': mode, 'level': level, 'seed': seed,
           'scripted': int(schedule is not None), 'schedule': schedule or {}, 'raised': 0, 'ids': [], 'neg_ok': [], 'nonzero': [],
           'mean_ok': 0, 'zero_equal': 0, 'npids': 0, 'uncorrelated': 1}
    X2 = x[:, None]
    with NoiseTrace(emd, tdir) as T:
        np.random.seed(seed)
        if schedule is not None:
            with UseScriptedPool(emd, schedule):
                out = core.guarded(fn, x, _timeout=120, **kw)
        else:
            out = core.guarded(fn, x, _timeout=120, **kw)
        ev = T.read()
    if isinstance(out, str):
        rec['raised'] = 1
        rec['err'] = out
        return rec
    res = out[0] if isinstance(out, tuple) else out
    byjob = {}
    for e in ev:
        byjob.setdefault(e['job'], []).append(e)
    ids, neg_ok, nonzero, members = [], [], [], []
    table = {}
    ok_struct = True
    for j in sorted(byjob):
        calls = sorted(byjob[j], key=lambda e: e['call'])
        a = np.array(calls[0]['x']).reshape(X2.shape)
        dig = hashlib.sha1((a - X2).tobytes()).hexdigest()
        ids.append(table.setdefault(dig, len(table) + 1))
        nonzero.append(int(np.abs(a - X2).max() > 0))
        m = emd.sift.sift(a, max_imfs=kw['max_imfs'])
        if mode == 'flip':
            if len(calls) < 2:
                neg_ok.append(0)
                ok_struct = False
            else:
                b = np.array(calls[1]['x']).reshape(X2.shape)
                n1, n2 = a - X2, X2 - b
                neg_ok.append(int(np.allclose(n1, n2, rtol=0, atol=1e-12 * (1 + np.abs(n1).max()))))
                m2 = emd.sift.sift(b, max_imfs=kw['max_imfs'])
                m = (m + m2) / 2 if m.shape == m2.shape else None
        else:
            neg_ok.append(int(len(calls) == 1))
        members.append(m)
    rec['ids'], rec['neg_ok'], rec['nonzero'] = ids, neg_ok, nonzero
    # independent realisations are (nearly) uncorrelated: |r| between two independent 96-sample noises is ~0.1 (0.6 is 6 sigma)
    noises = [np.array(sorted(byjob[j], key=lambda e: e['call'])[0]['x']) - X2[:, 0] for j in sorted(byjob)]
    rec['uncorrelated'] = 1
    if level > 0 and len(noises) > 1 and all(np.std(q) > 0 for q in noises):
        cc = np.corrcoef(np.array(noises))
        rec['max_abs_corr'] = float(np.max(np.abs(cc - np.eye(len(noises)))))
        rec['uncorrelated'] = int(rec['max_abs_corr'] < 0.6)
    rec['npids'] = len(set(e['pid'] for e in ev))
    try:
        ncol = res.shape[1]
        mean = np.mean([m[:, :ncol] for m in members], axis=0)
        rec['mean_ok'] = int(ok_struct and np.allclose(res, mean, rtol=0, atol=1e-12 * (1 + np.abs(mean).max())))
    except Exception:
        rec['mean_ok'] = 0
    if level == 0:
        ref = emd.sift.sift(x, max_imfs=kw['max_imfs'])
        rec['zero_equal'] = int(ref.shape == res.shape and np.allclose(res, ref, rtol=0, atol=1e-12 * (1 + np.abs(ref).max())))
    return rec


def ceemd_layers(emd, x, nens, nproc, mode, seed, tdir, cap=3):
    """complete_ensemble_sift with several components: every layer must average fresh decompositions of (residual +- that layer's
    member noise); members are grouped into layers by the order in which each member's calls were traced"""
    rec = {'kind': 'layers', 'variant': 'complete_ensemble_sift', 'nens': nens, 'nproc': nproc, 'mode': mode, 'seed': seed, 'raised': 0,
           'ncols': 0, 'nlayers_traced': 0, 'ids': [], 'neg_ok': [], 'mean_ok': [], 'uncorr': []}
    X2 = x[:, None]
    with NoiseTrace(emd, tdir) as T:
        np.random.seed(seed)
        out = core.guarded(emd.sift.complete_ensemble_sift, x, nensembles=nens, nprocesses=nproc, noise_mode=mode, max_imfs=cap, _timeout=180)
        ev = T.read()
    if isinstance(out, str):
        rec['raised'] = 1
        rec['err'] = out
        return rec
    imf = out[0]
    rec['ncols'] = int(imf.shape[1])
    per = 2 if mode == 'flip' else 1
    byjob = {}
    for e in sorted(ev, key=lambda e: e['t']):
        byjob.setdefault(e['job'], []).append(e)
    nl = min(len(v) for v in byjob.values()) // per if byjob else 0
    rec['nlayers_traced'] = nl if all(len(v) == nl * per for v in byjob.values()) else -1
    for k in range(min(nl, imf.shape[1])):
        R = X2 - imf[:, :k].sum(axis=1)[:, None]
        table, ids, members, noises = {}, [], [], []
        neg = 1
        for j in sorted(byjob):
            a = np.array(byjob[j][k * per]['x']).reshape(X2.shape)
            ids.append(table.setdefault(hashlib.sha1((a - R).tobytes()).hexdigest(), len(table) + 1))
            noises.append((a - R)[:, 0])
            m = emd.sift.sift(a, max_imfs=1)
            if per == 2:
                b = np.array(byjob[j][k * per + 1]['x']).reshape(X2.shape)
                neg &= int(np.allclose(a - R, R - b, rtol=0, atol=1e-10 * (1 + np.abs(a - R).max())))
                m = (m + emd.sift.sift(b, max_imfs=1)) / 2
            members.append(m)
        want = np.mean(members, axis=0)
        rec['ids'].append(ids)
        rec['neg_ok'].append(neg)
        rec['mean_ok'].append(int(np.allclose(imf[:, k:k + 1], want, rtol=0, atol=1e-10 * (1 + np.abs(want).max()))))
        cc = np.corrcoef(np.array(noises)) if len(noises) > 1 and all(np.std(q) > 0 for q in noises) else np.eye(len(noises))
        # (only the first layer's noise is white: later layers carry the slow remainders of each member's noise, whose sample
        #  correlation over 96 points has too few degrees of freedom for an independence test)
        rec['uncorr'].append(int(k > 0 or np.max(np.abs(cc - np.eye(len(noises)))) < 0.6))
    return rec


def _job(args):
    emd = core.import_emd()
    tdir, items = args
    tdir = os.path.join(tdir, 'nt-%d' % os.getpid())
    out = []
    for (variant, sig, nens, nproc, mode, level, seed, schedule) in items:
        rng = np.random.RandomState(sig)
        x = np.sin(np.arange(96) * (.15 + .1 * rng.rand())) + .3 * rng.randn(96)
        if seed % 4 == 3:
            x = np.round(x * 50).astype(np.int16)      # quantised data stored as integers: the noise is real-valued all the same
        out.append(one_run(emd, variant, x, nens, nproc, mode, level, seed, schedule, tdir))
        if variant == 'complete_ensemble_sift' and schedule is None and level > 0 and nens >= 2:
            out.append(ceemd_layers(emd, x, nens, nproc, mode, seed, tdir))
    return out


def run():
    ctx = Ctx('C08')
    cfg = os.path.join(ctx.work, 'en.cfg')
    J, W = ctx.pick((3, 2), (4, 3))
    consts = {'NJobs': J, 'NWorkers': W, 'Designs': '{"parent"}', 'Modes': '{"single", "flip"}'}
    core.write_cfg(cfg, spec='Spec', invariants=['DistinctNoise', 'ResultIsMean'], properties=['Terminates'], constants=consts)
    res = core.run_tlc(ctx, 'Ensemble', cfg, name='Ensemble %d jobs x %d workers' % (J, W), coverage=True)
    core.require_ok(res, 'Leg A Ensemble')
    cov = core.coverage_counts(res['out'])
    core.write_cfg(cfg, spec='Spec', invariants=['DistinctNoise'], constants=dict(consts, Designs='{"worker"}'))
    core.expect_violation(ctx, 'Ensemble', cfg, 'DistinctNoise', 'Ensemble with member-side draws (defect fixed in f039c76)', workers=4)
    core.write_cfg(cfg, spec='Spec', invariants=['W_TwoWorkersUsed'], constants=consts)
    core.expect_violation(ctx, 'Ensemble', cfg, 'W_TwoWorkersUsed', 'Ensemble W_TwoWorkersUsed', workers=4)
    core.write_cfg(cfg, spec='Spec', invariants=['Export'], constants=dict(consts, Modes='{"single"}'))
    res = core.run_tlc(ctx, 'Ensemble', cfg, name='Ensemble schedule export', workers=1)
    core.require_ok(res, 'Ensemble export')
    scheds = []
    seen = set()
    for b in parse_behaviours(res['out']):
        k = (tuple(b['assigned']), tuple(b['order']))
        if k not in seen:
            seen.add(k)
            scheds.append({'assigned': list(b['assigned']), 'order': list(b['order'])})
    ctx.leg('A', invariants=['DistinctNoise', 'ResultIsMean', 'Terminates'], action_coverage=cov, schedules=len(scheds))
    items = []
    if ctx.quick and len(scheds) > 60:
        rng = np.random.RandomState(ctx.seed)
        keep = [s for s in scheds if len(set(s['assigned'])) > 1]
        scheds_b = [keep[i] for i in rng.choice(len(keep), 60, replace=False)]
    else:
        scheds_b = scheds
    for i, s in enumerate(scheds_b):
        for variant in ('ensemble_sift', 'complete_ensemble_sift'):
            items.append((variant, i % 5, J, W, ('single', 'flip')[i % 2], 1 + (i % 2), 100 + i, s))
    nB = len(items)
    # Leg C grid (real pool)
    grid = []
    rng = np.random.RandomState(ctx.seed + 1)
    full = [(ne, npr) for ne in range(1, 9) for npr in range(1, 9)]
    pick = full if not ctx.quick else [full[i] for i in rng.choice(len(full), 20, replace=False)] + [(8, 4), (4, 2), (8, 8), (8, 1), (6, 1), (7, 2)]
    for k, (ne, npr) in enumerate(pick):
        for variant in ('ensemble_sift', 'complete_ensemble_sift'):
            for mode in ('single', 'flip'):
                level = (k + (mode == 'flip')) % 3
                grid.append((variant, k % 5, ne, npr, mode, level, 500 + k, None))
    items += grid
    jobs = [(ctx.work, items[i::32]) for i in range(32)]
    recs = [r for part in core.pmap(_job, jobs, workers=8) for r in part]
    bad = core.validate_records(ctx, 'EnsembleRec', recs, name='EnsembleRec')
    for r in recs:
        if r['kind'] == 'run' and r['npids'] > 1 and r['level'] > 0:
            ctx.nontrivial((r['variant'], r['nens'], r['nproc'], r['mode'], r['seed'], r['scripted']))
    ctx.sample({k: v for k, v in recs[0].items()})
    ctx.sample_first([r for r in recs if r['kind'] == 'run' and not r['scripted']])
    lay = [r for r in recs if r['kind'] == 'layers']
    if lay:
        ctx.sample_first(lay)
    ctx.leg('B', scripted_runs=nB, schedules_used=len(scheds_b))
    ctx.leg('C', real_pool_runs=len(grid), multi_process_runs=sum(1 for r in recs if r.get('npids', 0) > 1), ceemd_layerwise_runs=len(lay))
    seen = {}
    for r, clause in bad:
        seen.setdefault((clause, r['variant'], r.get('scripted', 0)), []).append(r)
    for (clause, variant, scripted), rs in seen.items():
        r = rs[0]
        ctx.violation('C08: %s violated by %s (%s pool) on %d runs; first: nensembles=%d nprocesses=%d mode=%s level=%s ids=%s neg_ok=%s mean_ok=%s schedule=%s %s' % (
            clause, variant, 'scripted' if scripted else 'real', len(rs), r['nens'], r['nproc'], r['mode'], LEVELS.get(r.get('level'), '-'), r['ids'], r['neg_ok'], r['mean_ok'], r.get('schedule'), r.get('err', '')),
            {'clause': clause, 'record': r})
    ctx.cov['rule'] = ('Leg B: (assignment, completion-order) schedules exported by TLC for %d jobs x %d workers forced onto ensemble_sift and complete_ensemble_sift through a forking '
                       'scripted pool; Leg C: real multiprocessing pool over nensembles 1..8 x nprocesses 1..8 (quick: a sample) x {single, flip} x noise levels {0, 0.05, 1}; '
                       'non-trivial = runs whose members were spread over more than one process with non-zero noise' % (J, W))
    ctx.assumptions += ['noise identity = sha1 of (array sifted - input) traced inside the worker processes', 'member decompositions are recomputed with the classic sift on the traced arrays']
    return ctx.finish()


def main(arg=None):
    core.main_wrap(run)
