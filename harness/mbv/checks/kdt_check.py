"""C17: feature matching returns a valid one-to-one pairing.

Leg A : TLC checks that the documented greedy procedure (spec/KdtMatchDef.tla!Greedy) yields a
        Valid pairing for EVERY small integer instance and EVERY admissible outcome of the
        neighbour query (all tie-breakings); the sorted-copy deviation is shown to violate it.
Leg B/C: the real kdt_match on every enumerated instance (all row orders) and on random float
        instances up to 200 x 200 rows; records validated by TLC against Valid (integer instances)
        or against brute-force tables supplied by the harness (float instances).
"""
import itertools
import os

import numpy as np

from .. import core
from ..core import Ctx, MachineryError

INF = 1000000


def call(emd, x, y, K, bound):
    o = core.guarded(emd.cycles.kdt_match, x, y, K=K, distance_upper_bound=bound)
    if isinstance(o, str):
        return None, None, o
    return [int(v) for v in o[0]], [int(v) for v in o[1]], None


def gen_int(args):
    emd = core.import_emd()
    out = []
    bufs = {}
    for (xs, ys, K, b2) in args:
        # a caller's feature arrays are long-lived objects that are refilled between calls: the SAME array objects
        # (one per shape) carry every instance, so nothing remembered from an earlier call may be trusted
        x = bufs.setdefault(('x', len(xs), len(xs[0])), np.empty((len(xs), len(xs[0]))))
        y = bufs.setdefault(('y', len(ys), len(ys[0])), np.empty((len(ys), len(ys[0]))))
        np.copyto(x, np.array(xs, float))
        np.copyto(y, np.array(ys, float))
        if (len(out) + K) % 3 == 0:
            x, y = np.array(xs, dtype=np.int64), np.array(ys, dtype=np.int64)      # integer-typed features
        bound = np.inf if b2 == INF else float(np.sqrt(b2))
        # the tree's bound is strict; a pair exactly at the bound is allowed by the property either way
        xi, yi, err = call(emd, x, y, K, bound)
        out.append({'kind': 'int', 'x': [list(map(int, r)) for r in xs], 'y': [list(map(int, r)) for r in ys], 'K': K, 'b2': b2,
                    'nx': len(xs), 'ny': len(ys), 'raised': int(err is not None), 'xi': xi or [], 'yi': yi or [], 'err': err or ''})
    return out


def gen_float(args):
    seed, count = args
    emd = core.import_emd()
    rng = np.random.RandomState(seed)
    out = []
    bufs = {}
    for it in range(count):
        nx, ny, nf = int(rng.randint(1, 201)), int(rng.randint(1, 201)), int(rng.randint(1, 5))
        if it % 2:
            nx, ny, nf = int(rng.choice([30, 90])), int(rng.choice([40, 120])), 2      # recurring shapes: see the buffers below
        mode = rng.randint(4)
        x = rng.randn(nx, nf)
        y = rng.randn(ny, nf)
        if mode == 1:                       # exact duplicates and ties
            x = np.round(x * 2) / 2
            y = np.round(y * 2) / 2
        elif mode == 2:                     # y is a noisy permutation of x
            y = x[rng.permutation(nx)][:ny] + .01 * rng.randn(min(nx, ny), nf) if ny <= nx else y
            ny = len(y)
        elif mode == 3 and nf == 1:         # sorted 1-d (the only case the test-suite tries) in arbitrary row order
            x = np.sort(x, axis=0)[rng.permutation(nx)]
        K = int(rng.randint(1, 16))
        bound = [np.inf, 1.0, 0.3][rng.randint(3)]
        if it % 2 and x.shape == (nx, 2) and y.shape == (ny, 2):
            # long-lived caller arrays refilled in place between calls (large enough for the tree to have several leaves)
            xb = bufs.setdefault(('x',) + x.shape, np.empty(x.shape))
            yb = bufs.setdefault(('y',) + y.shape, np.empty(y.shape))
            # ... first a call on other contents of the very same objects, then the instance itself
            np.copyto(xb, rng.randn(*x.shape))
            np.copyto(yb, rng.randn(*y.shape))
            call(emd, xb, yb, K, bound)
            np.copyto(xb, x)
            np.copyto(yb, y)
            x, y = xb, yb
        xi, yi, err = call(emd, x if nf > 1 or rng.rand() < .5 else x[:, 0], y if nf > 1 or rng.rand() < .5 else y[:, 0], K, bound)
        closer, within = [], []
        if err is None:
            for a, b in zip(xi, yi):
                if 0 <= a < nx and 0 <= b < ny:
                    d = np.sqrt(((y - x[a]) ** 2).sum(axis=1))
                    closer.append(int((d < d[b]).sum()))
                    within.append(int(d[b] <= bound))
                else:
                    closer.append(0)
                    within.append(1)
        out.append({'kind': 'float', 'K': K, 'nx': nx, 'ny': ny, 'nf': nf, 'mode': int(mode), 'bound': str(bound), 'seed': seed,
                    'raised': int(err is not None), 'xi': xi or [], 'yi': yi or [], 'closer': closer, 'within': within, 'err': err or ''})
    return out


def run():
    ctx = Ctx('C17')
    cfg = os.path.join(ctx.work, 'kd.cfg')
    n = ctx.pick(3, 3)
    coords = ctx.pick('{0, 1, 2}', '{0, 1, 2, 3}')
    consts = {'NX': n, 'NY': n, 'Coords': coords, 'Ks': '{1, 2, 3}', 'Bounds': '{1000000, 5, 2}', 'Dev': '{}'}
    core.write_cfg(cfg, init='Init', next_='Next', invariants=['GreedyIsValid'], constants=consts)
    res = core.run_tlc(ctx, 'KdtMatch', cfg, name='KdtMatch greedy => valid', timeout=3000)
    core.require_ok(res, 'Leg A KdtMatch')
    if not ctx.quick:
        c4 = dict(consts, NX=4, NY=3, Coords='{0, 1, 2}', Ks='{1, 2}')
        core.write_cfg(cfg, init='Init', next_='Next', invariants=['GreedyIsValid'], constants=c4)
        core.require_ok(core.run_tlc(ctx, 'KdtMatch', cfg, name='KdtMatch 4x3', timeout=3000), 'Leg A KdtMatch 4x3')
    core.write_cfg(cfg, init='Init', next_='Next', invariants=['GreedyIsValid'], constants=dict(consts, Coords='{0, 1}', Dev='{"UniqueIndsOnSortedCopy"}'))
    core.expect_violation(ctx, 'KdtMatch', cfg, 'GreedyIsValid', 'KdtMatch sorted-copy deviation (defect fixed in 1a7984b)')
    for w in ('W_SomeUnmatched', 'W_TieBroken'):
        core.write_cfg(cfg, init='Init', next_='Next', invariants=[w], constants=dict(consts, Coords='{0, 1}'))
        core.expect_violation(ctx, 'KdtMatch', cfg, w, 'KdtMatch ' + w)
    ctx.leg('A', invariants=['GreedyIsValid'])
    cs = [0, 1, 2] if ctx.quick else [0, 1, 2, 3]
    items = []
    for nx in range(1, n + 1):
        for ny in range(1, n + 1):
            for xs in itertools.product(cs, repeat=nx):
                for ys in itertools.product(cs, repeat=ny):
                    for K in (1, 2, 3):
                        for b2 in (INF, 5, 2):
                            items.append(([[v] for v in xs], [[v] for v in ys], K, b2))
    # two features, a smaller grid
    pts = [(a, b) for a in (0, 1) for b in (0, 2)]
    for xs in itertools.product(pts, repeat=3):
        for ys in itertools.product(pts, repeat=2):
            for K in (1, 2):
                items.append(([list(p) for p in xs], [list(p) for p in ys], K, INF))
    import multiprocessing as mp
    bad = []
    with mp.Pool(core.NCPU) as pool:
        buf = []
        for recs in pool.imap_unordered(gen_int, [items[i:i + 500] for i in range(0, len(items), 500)]):
            for r in recs:
                if len(r['xi']) >= 2:
                    ctx.nontrivial(len(ctx._nontrivial))
            buf.extend(recs)
            if len(buf) >= 100000:
                bad += core.validate_records(ctx, 'KdtMatchRec', buf, name='KdtMatchRec')
                buf = []
        if buf:
            bad += core.validate_records(ctx, 'KdtMatchRec', buf, name='KdtMatchRec')
        nf = ctx.pick(800, 8000)
        fl = [r for rs in pool.imap_unordered(gen_float, [(ctx.seed * 1000 + i, nf // 16) for i in range(16)]) for r in rs]
    bad += core.validate_records(ctx, 'KdtMatchRec', fl, name='KdtMatchRec-float', chunk=2000)
    ctx.sample(gen_int([([[0], [2], [1]], [[1], [1], [3]], 2, INF)])[0])
    ctx.sample({k: v for k, v in fl[0].items() if k not in ('closer', 'within', 'xi', 'yi')})
    ctx.leg('BC', integer_instances=len(items), float_instances=len(fl), float_matched_pairs=sum(len(r['xi']) for r in fl))
    ctx.cov['exhaustive'] = True
    ctx.cov['rule'] = ('every pair of 1-feature integer arrays with 1..%d rows over %s (all row orders, with ties) x K 1..3 x bounds {inf, sqrt 5, sqrt 2}, a 2-feature grid, '
                       'and %d random float instances (1-4 features, 1-200 rows, duplicates / permutations / sorted-then-shuffled, K 1..15, three bounds); '
                       'non-trivial = instances with at least two matched pairs' % (n, cs, len(fl)))
    ctx.assumptions += ['float instances: neighbour ranks and bound compliance come from a brute-force distance table (no KD-tree), exact float comparisons',
                        'a pair exactly at the distance bound is accepted either way (the tree excludes it, the property allows it)']
    seen = {}
    for r, clause in bad:
        seen.setdefault(clause, []).append(r)
    for clause, rs in seen.items():
        r = min(rs, key=lambda q: q['nx'] + q['ny'])
        ctx.violation('C17: %s violated on %d instances; smallest: %s' % (clause, len(rs), {k: v for k, v in r.items() if k not in ('closer', 'within')}),
                      {'clause': clause, 'record': {k: v for k, v in r.items() if k not in ('closer', 'within') or len(v) < 30}})
    return ctx.finish()


def main(arg=None):
    core.main_wrap(run)
