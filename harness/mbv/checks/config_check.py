"""C18: sift configurations are faithful, addressable and persistable.

Leg A : TLC checks DeleteExact / RoundTripFaithful / RoundTripIdempotent / LeavesNeedParents on
        spec/SiftConfig.tla for all edit histories to a depth bound.
Leg B : every exported history is replayed on TWO real SiftConfig objects per sift variant - one
        edited through slash paths, one through nested indexing - and through the YAML routes; after
        every operation both projections must equal the specification's state (and each other).
Leg C : behavioural clauses (defaults faithful, get_func faithful before/after each YAML route,
        fresh configs independent of edited ones) as records validated by TLC.
"""
import copy
import json
import os

import numpy as np

from .. import core
from ..core import Ctx, MachineryError
from .sift_check import parse_behaviours

VARIANTS = ('sift', 'ensemble_sift', 'complete_ensemble_sift', 'mask_sift')
ORDER = [('max_imfs',), ('newtop',), ('imf_opts', 'sd_thresh'), ('imf_opts', 'rilling_thresh'), ('imf_opts', 'newkey'),
         ('extrema_opts', 'pad_width'), ('extrema_opts', 'mag_pad_opts', 'stat_length'), ('extrema_opts', 'mag_pad_opts', 'newkey'),
         ('extrema_opts', 'mag_pad_opts', 'mode')]
GROUPS = [('imf_opts',), ('extrema_opts',), ('extrema_opts', 'mag_pad_opts')]
REAL = {'newtop': 'zz_newtop', 'newkey': 'zz_newkey'}


def rk(p):
    return [REAL.get(k, k) for k in p]


def value(tok):
    return {'Int1': 7, 'NoneV': None, 'List12': [1, 2], 'Tuple12': (1, 2), 'Arr12': np.array([1, 2]),
            'TupTup': ((2, 1),), 'ListTup': [(2, 1)], 'Arr1': np.array([5]), 'List1': [5], 'Arr2D': np.array([[1, 2]]),
            'ListList': [[1, 2]]}[tok]


def normv(v):
    if isinstance(v, (list, tuple)):
        return [normv(x) for x in v]
    if isinstance(v, np.ndarray):
        return ['arr'] + v.tolist()
    return v


def token(v, default):
    if isinstance(v, np.ndarray):
        return {'[1, 2]': 'Arr12', '[5]': 'Arr1', '[[1, 2]]': 'Arr2D'}.get(str(v.tolist()), 'other')
    if default is not _MISSING and type(v) in (type(default), list) and normv(v) == normv(default) and not (isinstance(v, list) and v == [1, 2]):
        return 'Default'
    if v is None:
        return 'NoneV'
    if type(v) is int and v == 7:
        return 'Int1'
    if type(v) is list and v == [1, 2] and all(type(e) is int for e in v):
        return 'List12'
    if type(v) is list and v == [5] and type(v[0]) is int:
        return 'List1'
    if type(v) is list and v == [[1, 2]] and type(v[0]) is list:
        return 'ListList'
    if type(v) is tuple and v == (1, 2):
        return 'Tuple12'
    if type(v) is tuple and v == ((2, 1),) and type(v[0]) is tuple:
        return 'TupTup'
    if type(v) is list and v == [(2, 1)] and type(v[0]) is tuple:
        return 'ListTup'
    return 'other'


_MISSING = object()


def lookup(store, p):
    d = store
    for k in rk(p):
        if not isinstance(d, dict) or k not in d:
            return _MISSING
        d = d[k]
    return d


def canon(tok, default):
    """a value token that denotes the very default of this leaf is the same observation as 'Default'"""
    if tok in ('NoneV', 'Int1') and default is not _MISSING and type(default) is type(value(tok)) and default == value(tok):
        return 'Default'
    return tok


def project(cfg, defaults):
    st = []
    for p in ORDER:
        v = lookup(cfg.store, p)
        st.append('absent' if v is _MISSING else token(v, lookup(defaults, p)))
    gr = [isinstance(lookup(cfg.store, g), dict) for g in GROUPS]
    return st, gr


def apply_op(emd, A, B, op, workdir, tag):
    """apply one operation to A (slash paths) and B (nested indexing); returns (A, B, getA, getB)"""
    kind, p, v = op
    SC = emd.sift.SiftConfig
    ga = gb = None
    keys = rk(p)
    if kind == 'set':
        A['/'.join(keys)] = value(v)
        d = B
        for k in keys[:-1]:
            d = d[k]
        d[keys[-1]] = value(v)
    elif kind == 'del':
        del A['/'.join(keys)]
        d = B
        for k in keys[:-1]:
            d = d[k]
        del d[keys[-1]]
    elif kind == 'get':
        ga = A['/'.join(keys)]
        d = B
        for k in keys:
            d = d[k]
        gb = d
    elif kind == 'miss':
        # a path that does not exist: every way of addressing it fails the way nested indexing fails (KeyError; False for
        # `in`; the default for .get) - whether anything was left behind is decided by the projections after the operation
        path = '/'.join(keys)
        sentinel = object()

        def nested(delete):
            d = B
            for k in keys[:-1]:
                d = d[k]
            if delete:
                del d[keys[-1]]
            return d[keys[-1]]
        for what, fn in (('slash read', lambda: A[path]), ('slash del', lambda: A.__delitem__(path)),
                         ('nested read', lambda: nested(False)), ('nested del', lambda: nested(True))):
            try:
                fn()
            except KeyError:
                continue
            raise AssertionError('%s of the missing path %s did not raise KeyError' % (what, path))
        if path in A:
            raise AssertionError('%r in cfg is True for a missing path' % path)
        if A.get(path, sentinel) is not sentinel:
            raise AssertionError('cfg.get(%r, default) did not return the default for a missing path' % path)
    elif kind == 'save':
        for i, c in enumerate((A, B)):
            if p[0] == 'text':
                c.to_yaml_text()
            else:
                fn = os.path.join(workdir, 'cfg-%s-%d-%d-s.yml' % (tag, os.getpid(), i))
                c.to_yaml_file(fn)
                if os.path.exists(fn):
                    os.unlink(fn)
    elif kind == 'roundtrip':
        out = []
        for i, c in enumerate((A, B)):
            fn = os.path.join(workdir, 'cfg-%s-%d-%d.yml' % (tag, os.getpid(), i))
            if p[0] == 'file':
                c.to_yaml_file(fn)
                out.append(SC.from_yaml_file(fn))
            elif p[0] == 'text':
                out.append(SC.from_yaml_stream(c.to_yaml_text()))
            else:
                c.to_yaml_file(fn)
                with open(fn) as f:
                    out.append(SC.from_yaml_stream(f))
            if os.path.exists(fn):
                os.unlink(fn)
        A, B = out
    return A, B, ga, gb


def replay(emd, variant, beh_hist, states, workdir, tag):
    A = emd.sift.get_config(variant)
    B = emd.sift.get_config(variant)
    defaults = copy.deepcopy(emd.sift.get_config(variant).store)
    W = emd.sift.get_config(variant)         # a witness object nobody operates on
    for i, op in enumerate(beh_hist):
        want = states[json.dumps(beh_hist[:i + 1])]
        try:
            A, B, ga, gb = apply_op(emd, A, B, op, workdir, tag)
        except Exception as e:
            return 'op %d %s raised %s: %s' % (i + 1, op, type(e).__name__, e)
        pa, pb = project(A, defaults), project(B, defaults)
        if pa != pb:
            return 'after op %d %s: slash-path object %s differs from nested-index object %s' % (i + 1, op, pa, pb)
        wstate = [canon(t, lookup(defaults, p)) for t, p in zip(want['state'], ORDER)]
        if pa[0] != wstate or pa[1] != want['groups']:
            return 'after op %d %s: real %s, specification %s' % (i + 1, op, pa, (want['state'], want['groups']))
        for what, obj in (('a configuration object obtained earlier', W), ('a fresh get_config()', emd.sift.get_config(variant))):
            pw = project(obj, defaults)
            if pw[0] != want['witness'] or not all(pw[1]):
                return 'after op %d %s: %s changed: %s, specification %s' % (i + 1, op, what, pw[0], want['witness'])
        if op[0] == 'get':
            d = lookup(defaults, op[1])
            ta, tb = token(ga, d), token(gb, d)
            if ta != tb or ta != canon(want['lastGet'], d):
                return 'get %s: slash %s nested %s specification %s' % (op[1], ta, tb, want['lastGet'])
        if A.sift_type != variant or B.sift_type != variant:
            return 'after op %d %s: sift type %s / %s, expected %s' % (i + 1, op, A.sift_type, B.sift_type, variant)
        if len(A) != len(B) or list(A) != list(B):
            return 'after op %d: len/iteration differ between the two objects' % (i + 1)
    return None


def _replay_job(args):
    emd = core.import_emd()
    items, states, workdir = args
    out = []
    for j, h in items:
        v = VARIANTS[j % 4]
        out.append((j, v, replay(emd, v, h, states, workdir, str(j))))
    return out


def _behaviour_job(args):
    """numeric clauses for one variant"""
    emd = core.import_emd()
    variant, workdir, seed = args
    S = emd.sift
    rng = np.random.RandomState(seed)
    x = np.sin(np.arange(128) * .21) + .5 * np.sin(np.arange(128) * .043) + .2 * rng.randn(128)
    fn = getattr(S, variant)
    extra = {'nprocesses': 1} if variant in ('ensemble_sift', 'complete_ensemble_sift') else {}
    recs = []

    def run(call):
        np.random.seed(11)
        r = call()
        return r[0] if isinstance(r, tuple) else r
    # (the ensemble variants are given a small explicit cap: without one, ensemble_sift raises IndexError whenever a
    #  member happens to produce fewer IMFs than the first - a crash outside C18, see DESIGN appendix B)
    capkw = {'max_imfs': 2} if variant in ('ensemble_sift', 'complete_ensemble_sift') else {}
    plain = run(lambda: fn(x, **capkw))
    cfg = S.get_config(variant)
    for k, v in capkw.items():
        cfg[k] = v
    recs.append({'kind': 'defaults', 'variant': variant, 'equal': int(np.array_equal(run(lambda: fn(x, **cfg)), plain))})
    # an edited config, its partial, and the partial after each YAML route
    cfg = S.get_config(variant)
    cfg['max_imfs'] = 2
    cfg['imf_opts/sd_thresh'] = 0.05
    cfg['imf_opts/rilling_thresh'] = (0.05, 0.5, 0.05)
    if seed % 2:
        # the Rilling rule is the consumer of rilling_thresh: after a round trip the tuple is a list and must work the same
        cfg['imf_opts/stop_method'] = 'rilling'
        cfg['imf_opts/max_iters'] = 200
    cfg['extrema_opts/pad_width'] = 3
    cfg['envelope_opts/interp_method'] = 'pchip'
    kw = dict(max_imfs=2, imf_opts=dict(cfg['imf_opts']), envelope_opts=dict(cfg['envelope_opts']), extrema_opts=copy.deepcopy(cfg['extrema_opts']))
    ref = run(lambda: fn(x, **dict({k: cfg[k] for k in cfg if k not in kw}, **kw)))
    recs.append({'kind': 'func', 'variant': variant, 'route': 'none', 'type_ok': int(cfg.sift_type == variant),
                 'equal': int(np.array_equal(run(lambda: cfg.get_func()(x)), ref))})
    for route in ('file', 'text', 'handle'):
        fnm = os.path.join(workdir, 'beh-%s-%d.yml' % (variant, os.getpid()))
        try:
            if route == 'file':
                cfg.to_yaml_file(fnm)
                back = S.SiftConfig.from_yaml_file(fnm)
            elif route == 'text':
                back = S.SiftConfig.from_yaml_stream(cfg.to_yaml_text())
            else:
                cfg.to_yaml_file(fnm)
                with open(fnm) as f:
                    back = S.SiftConfig.from_yaml_stream(f)
            eq = int(np.array_equal(run(lambda: back.get_func()(x)), ref))
            tk = int(back.sift_type == variant)
        except Exception as e:
            eq, tk = 0, 0
        recs.append({'kind': 'func', 'variant': variant, 'route': route, 'type_ok': tk, 'equal': eq})
    # a fresh default config must not be affected by edits made to another one (at any depth)
    c1 = S.get_config(variant)
    c1['extrema_opts/mag_pad_opts/stat_length'] = 3
    c1['extrema_opts/loc_pad_opts/reflect_type'] = 'odd'
    c1['imf_opts/sd_thresh'] = 0.3
    c2 = S.get_config(variant)
    for k, v in capkw.items():
        c2[k] = v
    recs.append({'kind': 'fresh', 'variant': variant, 'equal': int(np.array_equal(run(lambda: fn(x, **c2)), plain))})
    return recs


def run():
    ctx = Ctx('C18')
    D = ctx.pick(2, 3)
    cfg = os.path.join(ctx.work, 'sc.cfg')
    vals = '{"Int1", "NoneV", "List12", "Tuple12", "Arr12", "TupTup", "Arr1", "Arr2D"}'
    props = ['DeleteExact', 'RoundTripFaithful', 'RoundTripIdempotent', 'ReadsChangeNothing']
    core.write_cfg(cfg, spec='Spec', invariants=['LeavesNeedParents', 'WitnessUntouched'], properties=props, constants={'MaxOps': D, 'Values': vals})
    res = core.run_tlc(ctx, 'SiftConfig', cfg, name='SiftConfig depth %d' % D)
    core.require_ok(res, 'Leg A SiftConfig')
    core.write_cfg(cfg, spec='Spec', invariants=['W_TupleBecomesList'], constants={'MaxOps': 2, 'Values': vals})
    core.expect_violation(ctx, 'SiftConfig', cfg, 'W_TupleBecomesList', 'SiftConfig W_TupleBecomesList', workers=4)
    core.write_cfg(cfg, spec='Spec', invariants=['Export'], constants={'MaxOps': D, 'Values': vals})
    res = core.run_tlc(ctx, 'SiftConfig', cfg, name='SiftConfig history export', workers=1)
    core.require_ok(res, 'SiftConfig export')
    behs = parse_behaviours(res['out'])
    # random deeper histories from TLC's simulator
    core.write_cfg(cfg, spec='Spec', invariants=['Export'], constants={'MaxOps': 12, 'Values': vals})
    nsim = ctx.pick(150, 1500)
    res = core.run_tlc(ctx, 'SiftConfig', cfg, name='SiftConfig simulation depth 12', workers=1,
                       simulate='num=%d' % nsim, depth=13, seed=ctx.seed + 1, kind='simulation')
    sim = parse_behaviours(res['out'])
    if len(sim) < nsim:
        raise MachineryError('simulation produced only %d states' % len(sim))

    def hist_of(b):
        return [[o[0], list(o[1]), o[2]] for o in b['hist']]
    states = {}
    for b in behs + sim:
        states[json.dumps(hist_of(b))] = {'state': list(b['state']), 'groups': [bool(g) for g in b['groups']], 'lastGet': b['lastGet'],
                                          'witness': list(b['witness'])}
    paths = [hist_of(b) for b in behs if len(b['hist']) == D]
    deep = {}
    for b in sim:
        if len(b['hist']) == 12:
            deep[json.dumps(hist_of(b))] = hist_of(b)
    paths += list(deep.values())
    ctx.leg('A', properties=props + ['LeavesNeedParents', 'WitnessUntouched'], histories_exhaustive=len(paths) - len(deep), histories_simulated=len(deep))
    idx = list(enumerate(paths))
    jobs = [(idx[i::16], core.states_for(states, [h for _, h in idx[i::16]]), ctx.work) for i in range(16)]
    nbad = 0
    for part in core.pmap(_replay_job, jobs):
        for j, v, diff in part:
            ctx.cov['evaluations'] += 1
            if any(o[0] == 'roundtrip' for o in paths[j]) and any(o[0] in ('set', 'del') for o in paths[j]):
                ctx.nontrivial(j)
            if diff:
                nbad += 1
                if nbad <= 6:
                    ctx.violation('C18 leg B (%s): history %s: %s' % (v, paths[j], diff), {'leg': 'B', 'variant': v, 'history': paths[j], 'difference': diff})
            else:
                ctx.cov['traces_validated_against_impl'] += 1
    ctx.sample({'leg': 'B', 'history': paths[len(paths) // 2], 'expected': states[json.dumps(paths[len(paths) // 2])]})
    recs = [r for p in core.pmap(_behaviour_job, [(v, ctx.work, s) for v in VARIANTS for s in range(ctx.pick(2, 4))], workers=8) for r in p]
    bad = core.validate_records(ctx, 'SiftConfigRec', recs, name='SiftConfigRec')
    ctx.sample(recs[1])
    ctx.leg('B', histories_replayed=len(paths), mismatches=nbad)
    ctx.leg('C', behavioural_records=len(recs))
    for r, clause in bad:
        ctx.violation('C18: %s violated: %s' % (clause, r), {'clause': clause, 'record': r})
    ctx.cov['rule'] = ('ALL histories of %d operations over {set (8 leaf paths at depth 1-3 incl. fresh keys x 8 value kinds: int, None, list, tuple, array, tuple of tuples, one-element array, 1 x 2 array), a witness configuration object and a fresh get_config() observed after every operation, delete leaf / group, get, '
                       'YAML round trip by 3 routes} plus %d simulated histories of depth 12, each replayed on a slash-path object and a nested-index object for the four sift variants in turn; '
                       'non-trivial = histories mixing edits and a round trip' % (D, len(deep)))
    return ctx.finish()


def main(arg=None):
    core.main_wrap(run)
