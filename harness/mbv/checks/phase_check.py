"""C09: instantaneous phase, frequency and amplitude are consistent and accurate.

Leg A : TLC checks the lattice theorems of spec/Phase.tla (wrap range, unwrap recovers the derivative,
        frequency->phase->frequency round-trip law, offsets) over every step sequence of the domain.
Leg B : every enumerated lattice sequence is turned into exp(i 2 pi k / M) and pushed through the real
        phase_from_complex_signal (all ret_phase / phase_jump / smoothing settings), wrap_phase,
        freq_from_phase and phase_from_freq; outputs are projected back to lattice units and TLC
        validates them exactly against spec/PhaseDef.tla.
Leg C : frequency_transform (hilbert, nht, quad) on sinusoid columns: structural clauses on the returned
        arrays, scale behaviour with factors 2^k, and accuracy classes with frozen per-method tolerances
        (the accuracy clause is a floating-point statement the model cannot decide: harness predicate).
"""
import itertools
import os

import numpy as np

from .. import core
from ..core import Ctx, MachineryError

M = 24
U = 2 * np.pi / M
# frozen tolerances (measured worst cases on the delivered tree x3; see DESIGN 4/C09) - never loosened
TOL = {'hilbert': {'f': ('max', 1e-9), 'p': ('max', 1e-9), 'a': ('max', 1e-9)},
       'nht': {'f': ('max', 1.5e-2), 'p': ('max', 1.6e-2), 'a': ('max', 0.1)},
       'quad': {'f': ('mean', 4.2e-3), 'p': ('median', 3.8e-2), 'a': ('max', 0.1)}}


def lat(v, scale=M / (2 * np.pi)):
    a = np.asarray(v, float) * scale
    r = np.rint(a)
    return [int(x) for x in r.ravel()], int(np.all(np.abs(a - r) < 1e-6))


def cum(st, start):
    out, acc = [], start
    for s in st:
        acc += s
        out.append(acc)
    return out


def gen_lattice(args):
    emd = core.import_emd()
    Sp, Ut = emd.spectra, emd.utils
    recs = []
    for (st, start) in args:
        k = cum(st, start)
        z = np.exp(1j * 2 * np.pi * np.array(k) / M)
        for jump in ('ascending', 'peak', 'descending', 'trough'):
            for smooth in (0, 1):
                for wrapped in (0, 1):
                    o = core.guarded(Sp.phase_from_complex_signal, z[:, None], smoothing=(5 if smooth else None),
                                     ret_phase='wrapped' if wrapped else 'unwrapped', phase_jump=jump)
                    if isinstance(o, str) or getattr(o, 'shape', None) != (len(k), 1):
                        recs.append({'kind': 'pfc', 'k': k, 'smooth': smooth, 'jump': jump, 'wrapped': wrapped, 'out': [-99], 'exact': 1})
                        continue
                    out, ex = lat(o[:, 0])
                    if wrapped:
                        # the lattice value is compared modulo M (an angle computed as -1e-16 legitimately wraps to just below
                        # 2 pi); the half-open range itself is checked on the floats
                        out = [v % M for v in out]
                        ex = int(ex and bool(np.all(o >= 0) and np.all(o < 2 * np.pi)))
                    recs.append({'kind': 'pfc', 'k': k, 'smooth': smooth, 'jump': jump, 'wrapped': wrapped, 'out': out, 'exact': ex})
        u = np.array(k, float) * U
        for nc in (1, 2):
            for mode in ('2pi', '-pi2pi'):
                o = core.guarded(Ut.wrap_phase, u, ncycles=nc, mode=mode)
                out, ex = lat(o) if not isinstance(o, str) else ([-99], 1)
                if mode == '2pi':
                    out = [v % (nc * M) for v in out]
                else:
                    out = [((v + nc * M // 2) % (nc * M)) - nc * M // 2 for v in out]
                recs.append({'kind': 'wrap', 'u': k, 'nc': nc, 'mode': mode, 'out': out, 'exact': ex})
        for sr in (1, 128, 1000):
            o = core.guarded(Sp.freq_from_phase, u[:, None], sr) if len(k) > 1 else 'raise:short'
            if not isinstance(o, str):
                shape_ok = getattr(o, 'shape', None) == (len(k), 1)
                out, ex = lat(o[:, 0], 2 * M / sr) if shape_ok else ([-99], 1)
                recs.append({'kind': 'ffp', 'u': k, 'out2': out, 'exact': ex, 'sr': sr})
            f = np.array(st, float) * sr / M
            f2 = np.c_[f, 2 * f] if sr == 128 else f[:, None]          # one- and two-column frequency profiles
            o = core.guarded(Sp.phase_from_freq, f2, sr, phase_start=start * U)
            if not isinstance(o, str):
                shape_ok = getattr(o, 'shape', None) == f2.shape
                out, ex = lat(o[:, 0]) if shape_ok else ([-99], 1)
                recs.append({'kind': 'pff', 'f': list(st), 'start': start, 'out': out, 'exact': ex, 'sr': sr})
                if shape_ok and f2.shape[1] == 2:
                    out, ex = lat(o[:, 1])
                    recs.append({'kind': 'pff', 'f': [2 * v for v in st], 'start': start, 'out': out, 'exact': ex, 'sr': sr})
    return recs


def classify(method, stat, err):
    """err: signed errors over the interior; 'max'/'median' are taken over |err|, 'mean' is |mean(err)|"""
    how, tol = TOL[method][stat]
    v = {'max': lambda e: np.max(np.abs(e)), 'mean': lambda e: abs(np.mean(e)), 'median': lambda e: np.median(np.abs(e))}[how](err)
    return 'tight' if v <= tol / 100 else ('ok' if v <= tol else 'bad')


def gen_ft(args):
    seed, count = args
    emd = core.import_emd()
    rng = np.random.RandomState(seed)
    recs = []
    for it in range(count):
        method = ('hilbert', 'nht', 'quad')[rng.randint(3)]
        sr = int(rng.choice([128, 256, 512, 1000, 2000]))
        ncol = int(rng.randint(1, 4))
        aligned = int(rng.rand() < .4)
        kindsig = 'sinusoid' if rng.rand() < .6 else ('noisy', 'am_first')[rng.randint(2)]   # non-sinusoid inputs: structural clauses only
        if kindsig != 'sinusoid':
            aligned = 0
        n = int(rng.choice([240, 480, 960])) if aligned else int(rng.choice([256, 512, 1000, 2048]))
        t = np.arange(n)
        cols, truth = [], []
        for c in range(ncol):
            A = 10 ** rng.uniform(-1, 2)
            if aligned:
                Mp = int(rng.choice([12, 16, 24, 48]))
                k0 = int(rng.randint(0, Mp))
                ph = 2 * np.pi * (k0 + t) / Mp
                f = sr / Mp
            else:
                ncyc = int(rng.randint(4, max(5, n // 12)))
                ph = 2 * np.pi * ncyc * t / n + rng.uniform(0, 2 * np.pi)
                f = ncyc * sr / n
            cols.append(A * np.cos(ph))
            truth.append((A, f, ph))
        x = np.array(cols).T
        if kindsig == 'noisy':          # slow oscillations with a few percent of noise: locally non-monotonic phase
            x = x + .05 * np.abs(x).max(axis=0) * rng.randn(*x.shape)
        elif kindsig == 'am_first':     # a strongly amplitude-modulated first column
            x[:, 0] = x[:, 0] * (1.2 + np.cos(2 * np.pi * 3 * t / n))
        r = {'kind': 'ft', 'sig': kindsig, 'method': method, 'sr': sr, 'ncol': ncol, 'aligned': aligned, 'seed': seed, 'it': it, 'raised': 0}
        o = core.guarded(emd.spectra.frequency_transform, x if ncol > 1 or rng.rand() < .5 else x[:, 0], sr, method)
        if isinstance(o, str):
            r.update(raised=1, err=o)
            recs.append(r)
            continue
        IP, IF, IA = o
        r['shapes_equal'] = int(IP.shape == x.shape and IF.shape == x.shape and IA.shape == x.shape)
        if not r['shapes_equal']:
            # (the remaining clauses are stated on arrays of the input's shape: nothing more can be recorded)
            r.update(raised=1, err='output shapes %s %s %s for input %s' % (IP.shape, IF.shape, IA.shape, x.shape))
            recs.append(r)
            continue
        r['ip_in_range'] = int(bool(np.all(IP >= 0) and np.all(IP < 2 * np.pi)))
        # frequency is the sample-rate-scaled derivative of the unwrapped phase (on the RETURNED arrays)
        uw = np.unwrap(IP, axis=0)
        g = np.gradient(uw, axis=0) / (2 * np.pi) * sr
        d = np.abs(np.diff(uw, axis=0))
        calm = np.ones(IP.shape, bool)
        calm[1:] &= d < .9 * np.pi
        calm[:-1] &= d < .9 * np.pi
        ok = np.abs(g - IF) <= 1e-6 * (1 + np.abs(IF))
        r['if_is_grad'] = int(bool(np.all(ok[calm]) and calm.mean() > .9))
        # scale behaviour, factor 2^k
        s = 2.0 ** int(rng.randint(-6, 7))
        o2 = core.guarded(emd.spectra.frequency_transform, x * s, sr, method)
        if isinstance(o2, str):
            r.update(scale_phase=0, scale_freq=0, scale_amp=0)
        else:
            exact = method == 'hilbert'
            r['scale_phase'] = int(np.array_equal(o2[0], IP) if exact else np.allclose(o2[0], IP, rtol=0, atol=1e-9))
            r['scale_freq'] = int(np.array_equal(o2[1], IF) if exact else np.allclose(o2[1], IF, rtol=1e-9, atol=1e-9))
            r['scale_amp'] = int(np.array_equal(o2[2], IA * s) if exact else np.allclose(o2[2], IA * s, rtol=1e-9, atol=0))
        # every column is transformed independently of its neighbours
        indep = 1
        if ncol > 1:
            for c in range(ncol):
                o1 = core.guarded(emd.spectra.frequency_transform, x[:, c], sr, method)
                indep &= int(not isinstance(o1, str) and all(np.shape(o1[q]) in ((x.shape[0],), (x.shape[0], 1)) and
                                                             np.allclose(np.reshape(o1[q], (x.shape[0],)), (IP, IF, IA)[q][:, c], rtol=1e-9, atol=1e-9) for q in range(3)))
        r['cols_independent'] = indep
        lo, hi = n // 10, n - n // 10
        cf = ca = cp = 'tight'
        if kindsig != 'sinusoid':
            truth = []
        lat_ok = 1
        order = {'tight': 0, 'ok': 1, 'bad': 2}
        for c, (A, f, ph) in enumerate(truth):
            ef = (IF[lo:hi, c] - f) / f
            ea = (IA[lo:hi, c] - A) / A
            ptrue = (ph + np.pi / 2) % (2 * np.pi)
            ep = np.angle(np.exp(1j * (IP[lo:hi, c] - ptrue[lo:hi])))
            for nm, cur, e in (('f', cf, ef), ('a', ca, ea), ('p', cp, ep)):
                cl = classify(method, nm, e)
                if order[cl] > order[cur]:
                    if nm == 'f':
                        cf = cl
                    elif nm == 'a':
                        ca = cl
                    else:
                        cp = cl
            # two-sided: an estimate far BELOW the truth is as bad as one far above (covered by abs above)
            if aligned and method == 'hilbert':
                lat_ok &= int(np.all(np.abs(ep) < 1e-9))
        r.update(class_f=cf, class_a=ca, class_p=cp, lattice_phase_ok=lat_ok)
        recs.append(r)
    return recs


def replay_ampnorm(args):
    """Leg B for amplitude_normalise: behaviours of spec/AmpNorm.tla through the real routine with a scripted envelope kernel."""
    emd = core.import_emd()
    out = []
    U = emd.utils
    for j, b in args:
        envs, divs = b['env'], b['divs']
        ncol = len(envs)
        n = 40
        rng = np.random.RandomState(j)
        X = rng.randn(n, ncol)
        arrays = {}
        state = {'col': 0, 'req': 0, 'calls': 0}

        def stub(x, mode='upper', interp_method='splrep', **kw):
            state['calls'] += 1
            c = state['col']
            if c >= ncol:
                return None
            state['req'] += 1
            r = state['req']
            kind = envs[c][r - 1] if r - 1 < len(envs[c]) else 'none'
            if r == divs[c] + 1:            # the model says this is the column's last request
                state['col'] += 1
                state['req'] = 0
            if kind == 'none':
                return None
            if kind == 'flat':
                e = np.ones(n)
            else:
                e = 1.0 + 0.5 * np.random.RandomState(1000 * j + 10 * c + r).rand(n)
            arrays[(c, r)] = e
            return e
        orig = U.interp_envelope
        U.interp_envelope = stub
        try:
            res = core.guarded(U.amplitude_normalise, X.copy(), max_iters=b['maxit'])
        finally:
            U.interp_envelope = orig
        diff = None
        if isinstance(res, str):
            diff = res
        else:
            for c in range(ncol):
                want = X[:, c].copy()
                for r in range(1, divs[c] + 1):
                    want = want / arrays.get((c, r), np.full(n, np.nan))
                if not np.allclose(res[:, c], want, rtol=1e-12, atol=0, equal_nan=False):
                    diff = 'column %d: result is not X divided by its first %d envelopes (envelope script %s)' % (c, divs[c], envs[c])
                    break
            if diff is None and state['calls'] != sum(d + 1 for d in divs):
                diff = 'envelope requests %d, model %d' % (state['calls'], sum(d + 1 for d in divs))
        out.append((j, diff))
    return out


def ampnorm_leg(ctx):
    from .sift_check import parse_behaviours
    cfg = os.path.join(ctx.work, 'an.cfg')
    behs = []
    for mi in (1, 2, 3):
        consts = {'NCols': 2, 'MaxIters': mi, 'Dev': '{}'}
        core.write_cfg(cfg, spec='Spec', invariants=['ColumnsIndependent', 'BudgetRespected'], properties=['Terminates'], constants=consts)
        core.require_ok(core.run_tlc(ctx, 'AmpNorm', cfg, name='AmpNorm max_iters=%d' % mi), 'Leg A AmpNorm')
        core.write_cfg(cfg, spec='Spec', invariants=['Export'], constants=consts)
        res = core.run_tlc(ctx, 'AmpNorm', cfg, name='AmpNorm export', workers=1)
        core.require_ok(res, 'AmpNorm export')
        for b in parse_behaviours(res['out']):
            b['maxit'] = mi
            b['env'] = [list(e) for e in b['env']]
            b['divs'] = list(b['divs'])
            behs.append(b)
    core.write_cfg(cfg, spec='Spec', invariants=['ColumnsIndependent'], constants={'NCols': 2, 'MaxIters': 3, 'Dev': '{"SharedBudget"}'})
    core.expect_violation(ctx, 'AmpNorm', cfg, 'ColumnsIndependent', 'AmpNorm shared iteration budget deviation', workers=4)
    if ctx.quick:
        rng = np.random.RandomState(ctx.seed)
        pick = rng.choice(len(behs), 1500, replace=False)
        behs = [behs[i] for i in pick]
    idx = list(enumerate(behs))
    import multiprocessing as mp
    nbad = 0
    with mp.Pool(core.NCPU) as pool:
        for part in pool.imap_unordered(replay_ampnorm, [idx[i::32] for i in range(32)]):
            for j, diff in part:
                ctx.cov['evaluations'] += 1
                if diff:
                    nbad += 1
                    if nbad <= 3:
                        ctx.violation('C09 (amplitude_normalise): behaviour %s not reproduced: %s' % (behs[j], diff), {'leg': 'ampnorm', 'behaviour': behs[j], 'difference': diff})
                else:
                    ctx.cov['traces_validated_against_impl'] += 1
    ctx.leg('ampnorm', behaviours_replayed=len(behs), mismatches=nbad)


def run():
    ctx = Ctx('C09')
    ampnorm_leg(ctx)
    cfg = os.path.join(ctx.work, 'ph.cfg')
    invs = ['WrapRange', 'UnwrapRecovers', 'RoundTrip', 'OffsetsConsistent']
    plans = ctx.pick([(5, 'StepsSome', [-3, 0, 1, 2, 3, 5, 7, 9, 11])], [(5, 'StepsFull', list(range(-5, 12))), (6, 'StepsSome', [-3, 0, 1, 2, 3, 5, 7, 9, 11])])
    starts = [0, 5, 17]
    items = set()
    for L, nm, steps in plans:
        consts = {'M': M, 'MaxLen': L, 'Steps': '<- ' + nm, 'Starts': '{0, 5, 17}'}
        core.write_cfg(cfg, init='Init', next_='Next', invariants=invs, constants=consts)
        res = core.run_tlc(ctx, 'Phase', cfg, name='Phase theorems L<=%d %s' % (L, nm), timeout=3000)
        core.require_ok(res, 'Leg A Phase')
        n0 = len(items)
        cnt = 0
        for n in range(1, L):
            for st in itertools.product(steps, repeat=n):
                for s0 in starts:
                    items.add((st, s0))
                    cnt += 1
        if res['distinct'] - len(steps) * len(starts) != cnt:
            raise MachineryError('domain mismatch: model %d, harness %d' % (res['distinct'] - len(steps) * len(starts), cnt))
    core.write_cfg(cfg, init='Init', next_='Next', invariants=['W_Wraps'], constants={'M': M, 'MaxLen': 4, 'Steps': '<- StepsSome', 'Starts': '{0, 5, 17}'})
    core.expect_violation(ctx, 'Phase', cfg, 'W_Wraps', 'Phase W_Wraps')
    items = sorted(items)
    import multiprocessing as mp
    bad = []
    with mp.Pool(core.NCPU) as pool:
        buf = []
        for recs in pool.imap_unordered(gen_lattice, [items[i:i + 200] for i in range(0, len(items), 200)]):
            buf.extend(recs)
            if len(buf) >= 150000:
                bad += core.validate_records(ctx, 'PhaseRec', buf, constants={'M': M}, name='PhaseRec')
                buf = []
        if buf:
            ctx.sample_first([r for r in buf if r['kind'] == 'pfc' and len(r['k']) >= 4 and r['smooth'] and r['wrapped']])
            bad += core.validate_records(ctx, 'PhaseRec', buf, constants={'M': M}, name='PhaseRec')
        nft = ctx.pick(480, 4800)
        ft = [r for rs in pool.imap_unordered(gen_ft, [(ctx.seed * 100 + i, nft // 16) for i in range(16)]) for r in rs]
    bad += core.validate_records(ctx, 'PhaseRec', ft, constants={'M': M}, name='PhaseRec-ft')
    for (st, s0) in items:
        k = cum(st, s0)
        if len(k) >= 3 and (max(k) // M) != (min(k) // M):
            ctx.nontrivial((st, s0))
    ctx.sample_first(ft)
    ctx.leg('A', invariants=invs)
    ctx.leg('B', lattice_sequences=len(items))
    ctx.leg('C', frequency_transform_runs=len(ft), by_method={m: sum(1 for r in ft if r['method'] == m) for m in TOL},
            classes={c: sum(1 for r in ft if r.get('class_f') == c) for c in ('tight', 'ok', 'bad')}, tolerances={m: {k: list(v) for k, v in t.items()} for m, t in TOL.items()})
    ctx.cov['exhaustive'] = True
    ctx.cov['rule'] = ('every lattice step sequence (M=24, no step equal to +-M/2) of the stated lengths x 3 start phases through phase_from_complex_signal (4 jumps x smoothing x '
                       'wrapped/unwrapped), wrap_phase (2 modes x ncycles 1,2), freq_from_phase and phase_from_freq (3 sample rates); plus frequency_transform on 1-3 whole-cycle '
                       'sinusoid columns (3 methods, 5 sample rates, amplitude over 3 decades, random or lattice-aligned phase); non-trivial = lattice sequences crossing a 2 pi boundary')
    ctx.assumptions += ['ACCURACY CLAUSE: not decidable by the model; decided by harness classification against frozen per-method tolerances (interior 80%, whole-cycle sinusoids)',
                        'wrapped outputs are compared modulo M (np.mod(-eps, 2 pi) can round to exactly 2 pi on exact-lattice input to the pure helper); the strict range clause is enforced on frequency_transform outputs']
    seen = {}
    for r, clause in bad:
        seen.setdefault(clause, []).append(r)
    for clause, rs in seen.items():
        r = min(rs, key=lambda q: len(q.get('k', q.get('u', q.get('f', [0] * 99)))))
        ctx.violation('C09: %s violated on %d records; smallest: %s' % (clause, len(rs), r), {'clause': clause, 'record': r})
    return ctx.finish()


def main(arg=None):
    core.main_wrap(run)
