"""C12 / C13: cycle detection and good-cycle criteria.

Leg A : TLC checks the partition / soundness / completeness / renumbering theorems of
        spec/Cycles.tla on every phase series of the enumerated domain.
Leg B/C: the same domain (plus masks, layouts, is_good, the Cycles container and long float
        phases) is pushed through the real emd code; every call becomes one record that TLC
        validates against spec/CyclesDef.tla!CycleVector (spec/CyclesRec.tla).
"""
import itertools
import os
import sys

import numpy as np

from .. import core
from ..core import Ctx, MachineryError

M = 24
U = 2 * np.pi / M


def table(E):
    """lattice value -> float, with the two edge thresholds mapped to the very floats the code uses"""
    edge = {1: np.pi / 12, 2: np.pi / 6, 6: np.pi / 2}[E]
    v = [k * U for k in range(M + 1)]
    v[E] = 0 + edge
    v[M - E] = 2 * np.pi - edge
    assert all(v[i] < v[i + 1] for i in range(M))
    return np.array(v), edge


def alphabet(E):
    return [E, E + 1, M // 2, M - E - 1, M - E]


STEPS = {1: [0, 10, 18, 20], 2: [10, 18, 19], 6: [4, 10, 11]}      # 0: phase_step exactly 0.0 (every non-zero change is a wrap)


def _call(fn, *a, **k):
    return core.guarded(fn, *a, **k)


def _vec(out, col=0):
    if isinstance(out, str):
        return [-99], out
    out = np.asarray(out)
    if out.ndim == 2:
        out = out[:, col]
    return [int(x) for x in out], None


def gen_records(args):
    """Worker: records for a slice of the enumerated domain."""
    E, seqs, masks_upto, do_container, pid = args
    emd = core.import_emd()
    gcv = emd.cycles.get_cycle_vector
    val, edge = table(E)
    recs = []
    for seq in seqs:
        p = list(seq)
        n = len(p)
        ph = val[p]
        for S in STEPS[E]:
            stepf = (S + 0.5) * U if S > 0 else 0.0
            base = {'p': p, 'step': S, 'edge': E}
            for good in (0, 1):
                out, err = _vec(_call(gcv, ph, return_good=bool(good), phase_step=stepf, phase_edge=edge))
                r = dict(base, kind='cv', good=good, hasmask=0, mask=[], out=out)
                if err:
                    r['err'] = err
                recs.append(r)
            # layouts: single column and two columns (second column = series shifted by one symbol)
            if n >= 2 and S == STEPS[E][1]:
                p2 = p[1:] + p[:1]
                two = np.c_[ph, val[p2]]
                for good in (0, 1):
                    o = _call(gcv, two, return_good=bool(good), phase_step=stepf, phase_edge=edge)
                    for col, pp in ((0, p), (1, p2)):
                        out, err = _vec(o, col)
                        recs.append({'kind': 'cv', 'p': pp, 'step': S, 'edge': E, 'good': good, 'hasmask': 0,
                                     'mask': [], 'out': out, 'layout': 'two-column'})
                o = _call(gcv, ph[:, None], return_good=True, phase_step=stepf, phase_edge=edge)
                out, err = _vec(o)
                recs.append(dict(base, kind='cv', good=1, hasmask=0, mask=[], out=out, layout='column'))
                # a wrap-free (constant) column BEFORE and AFTER the series: columns are independent of each other
                three = np.c_[np.full(n, val[M // 2]), ph, np.full(n, val[E])]
                o = _call(gcv, three, return_good=False, phase_step=stepf, phase_edge=edge)
                for col, pp in ((0, [M // 2] * n), (1, p), (2, [E] * n)):
                    out, err = _vec(o, col)
                    recs.append({'kind': 'cv', 'p': pp, 'step': S, 'edge': E, 'good': 0, 'hasmask': 0, 'mask': [], 'out': out, 'layout': 'three-column'})
            # the comparison with phase_step is STRICT: a change exactly equal to the step is no wrap.  Dyadic phases
            # (even lattice numbers 2k <-> k/4 rad, exact floats) and a dyadic step make the tie exact.
            if pid == 'C12' and S == STEPS[E][1] and n >= 2:
                p2 = [2 * (k % 12) for k in p]
                phd = np.array(p2, dtype=float) / 8.0
                for T in (2, 5):
                    out, err = _vec(_call(gcv, phd, return_good=False, phase_step=(2 * T) / 8.0, phase_edge=edge))
                    r = {'kind': 'cv', 'p': p2, 'step': 2 * T, 'edge': E, 'good': 0, 'hasmask': 0, 'mask': [], 'out': out, 'layout': 'exact-tie'}
                    if err:
                        r['err'] = err
                    recs.append(r)
            # masks
            if n <= masks_upto:
                mlist = itertools.product((0, 1), repeat=n)
            elif pid == 'C13':
                mlist = [tuple(1 if not (a <= i < a + 2) else 0 for i in range(n)) for a in range(0, n - 1)]
            else:
                mlist = []
            for mk in mlist:
                if all(mk):
                    continue
                for good in ((0, 1) if pid == 'C13' else (1,)):
                    o = _call(gcv, ph, return_good=bool(good), mask=np.array(mk, dtype=bool),
                              phase_step=stepf, phase_edge=edge)
                    out, err = _vec(o)
                    recs.append(dict(base, kind='cv', good=good, hasmask=1, mask=list(mk), out=out))
            if pid == 'C13' and do_container:
                for cache in (True, False):
                    try:
                        C = emd.cycles.Cycles(ph, phase_step=stepf, phase_edge=edge, use_cache=cache)
                        if 'is_good' in C.metrics:
                            out = [int(x) for x in C.metrics['is_good']]
                        elif C.ncycles == 0:
                            out = []
                        else:
                            out = [-98]
                    except Exception as e:
                        out = [-99]
                    recs.append(dict(base, kind='container', out=out, cache=int(cache)))
        if pid == 'C13':
            # is_good on the whole series as one segment, criterion by criterion
            o = _call(emd.cycles.is_good, ph, ret_all_checks=True, phase_edge=edge)
            out = [-99, -99, -99] if isinstance(o, str) else [int(x) for x in o[:3]]
            recs.append({'kind': 'isgood', 'p': p, 'edge': E, 'out': out})
            o2 = _call(emd.cycles.is_good, ph, phase_edge=edge)
            if not isinstance(o2, str) and not isinstance(o, str) and bool(o2) != bool(all(o)):
                recs.append({'kind': 'isgood', 'p': p, 'edge': E, 'out': [-97, -97, -97]})
            if p[0] == E and n >= 2 and p[1] > E + 1:
                # NEAR-misses of the edge criteria (a relative 1e-7 beyond the edge is beyond the edge: no tolerance): the
                # start just above the edge behaves like the next lattice value, the end just below 2 pi - edge likewise
                phn = val[p].copy()
                phn[0] = edge * (1 + 1e-7)
                o = _call(emd.cycles.is_good, phn, ret_all_checks=True, phase_edge=edge)
                recs.append({'kind': 'isgood', 'p': [E + 1] + p[1:], 'edge': E, 'out': [-99, -99, -99] if isinstance(o, str) else [int(x) for x in o[:3]], 'near_miss': 'start'})
            if p[-1] == M - E and n >= 2 and p[-2] < M - E - 1:
                phn = val[p].copy()
                phn[-1] = 2 * np.pi - edge * (1 + 1e-7)
                o = _call(emd.cycles.is_good, phn, ret_all_checks=True, phase_edge=edge)
                recs.append({'kind': 'isgood', 'p': p[:-1] + [M - E - 1], 'edge': E, 'out': [-99, -99, -99] if isinstance(o, str) else [int(x) for x in o[:3]], 'near_miss': 'end'})
            if p[0] == E:
                # a segment that starts at phase EXACTLY zero (the lower end of the start criterion is inclusive)
                p0 = [0] + p[1:]
                ph0 = val[p0]
                o = _call(emd.cycles.is_good, ph0, ret_all_checks=True, phase_edge=edge)
                recs.append({'kind': 'isgood', 'p': p0, 'edge': E, 'out': [-99, -99, -99] if isinstance(o, str) else [int(x) for x in o[:3]]})
                S0 = STEPS[E][1]
                out, err = _vec(_call(gcv, ph0, return_good=True, phase_step=(S0 + 0.5) * U, phase_edge=edge))
                recs.append({'kind': 'cv', 'p': p0, 'step': S0, 'edge': E, 'good': 1, 'hasmask': 0, 'mask': [], 'out': out, 'layout': 'starts-at-zero'})
    return recs


def long_records(args):
    """Long synthetic float phases; wrap positions / criteria supplied by exact float comparisons."""
    seed, count, pid = args
    emd = core.import_emd()
    rng = np.random.RandomState(seed)
    recs = []
    for _ in range(count):
        n = int(rng.randint(200, 3000))
        f = 0.02 + 0.05 * rng.rand() + 0.02 * np.cumsum(rng.randn(n)) / np.sqrt(n)
        f = f + 0.01 * rng.randn(n) * (rng.rand() < .7)
        rev = rng.rand(n) < 0.01
        f[rev] *= -3
        ph = np.cumsum(2 * np.pi * f) % (2 * np.pi)
        step = float(rng.choice([np.pi, 1.5 * np.pi, 1.9 * np.pi]))
        edge = float(rng.choice([np.pi / 12, np.pi / 6, np.pi / 2]))
        d = np.abs(ph[1:] - ph[:-1])
        wraps = [int(i) + 2 for i in np.where(d > step)[0]]          # 1-based sample positions
        b = [1] + wraps + [n + 1]
        for good in (0, 1):
            if good and pid != 'C13':
                continue
            acc = []
            for k in range(len(b) - 1):
                seg = ph[b[k] - 1:b[k + 1] - 1]
                ok = True
                if good:
                    inc = all(seg[i + 1] > seg[i] for i in range(len(seg) - 1))
                    ok = inc and (seg[0] >= 0) and (seg[0] <= 0 + edge) and (seg[-1] <= 2 * np.pi) and \
                        (seg[-1] >= 2 * np.pi - edge)
                acc.append(int(ok))
            out, err = _vec(_call(emd.cycles.get_cycle_vector, ph, return_good=bool(good), phase_step=step,
                                  phase_edge=edge))
            if err:
                out = [-99] * n
            recs.append({'kind': 'wraps', 'n': n, 'wraps': wraps, 'accept': acc, 'out': out, 'good': good,
                         'seed': seed})
    return recs


def run(pid):
    ctx = Ctx(pid)
    if pid == 'C12':
        from .extras import waveform_leg
        waveform_leg(ctx)
    rng_seed = ctx.seed
    quick = ctx.quick
    # ---------------- Leg A: theorems on the spec --------------------------------------
    invs12 = ['C12_PartitionAll', 'C12_PartitionAllMasked', 'C12_PartitionGood', 'C12_Total']
    invs13 = ['C13_Sound', 'C13_Complete', 'C13_Renumbering']
    invs = invs12 if pid == 'C12' else invs13 + ['C12_PartitionGood']
    if pid == 'C12':
        plan = ctx.pick([(1, 6, 'none'), (2, 5, 'none'), (6, 5, 'none'), (1, 3, 'all')],
                        [(1, 8, 'none'), (2, 7, 'none'), (6, 7, 'none'), (1, 5, 'all')])
        dom = ctx.pick([(1, 6, 0), (2, 5, 0), (6, 5, 0)], [(1, 8, 0), (2, 7, 0), (6, 7, 0)])
    else:
        plan = ctx.pick([(1, 5, 'none'), (2, 4, 'none'), (6, 4, 'none'), (1, 4, 'all')],
                        [(1, 7, 'none'), (2, 6, 'none'), (6, 6, 'none'), (1, 6, 'all'), (2, 5, 'all'), (6, 5, 'all')])
        dom = ctx.pick([(1, 5, 4), (2, 4, 3), (6, 4, 3)], [(1, 7, 5), (2, 6, 5), (6, 6, 5)])
    for E, L, mm in plan:
        cfg = os.path.join(ctx.work, 'cyc-%d-%d-%s.cfg' % (E, L, mm))
        core.write_cfg(cfg, init='Init', next_='Next', invariants=invs,
                       constants={'M': M, 'MaxLen': L, 'Alphabet': core.tla_value(set(alphabet(E))),
                                  'Steps': core.tla_value(set(STEPS[E])), 'Edges': '{%d}' % E,
                                  'MaskMode': '"%s"' % mm})
        res = core.run_tlc(ctx, 'Cycles', cfg, name='Cycles E=%d MaxLen=%d masks=%s' % (E, L, mm), timeout=3000)
        core.require_ok(res, 'Leg A Cycles E=%d L=%d' % (E, L))
    # vacuity + spec-mutation self-tests (small instance)
    cfg = os.path.join(ctx.work, 'cyc-self.cfg')
    for inv in ['W_SomeGood', 'W_SomeRejected', 'W_SomeMasked', 'SelfTest_DevTotal']:
        core.write_cfg(cfg, init='Init', next_='Next', invariants=[inv],
                       constants={'M': M, 'MaxLen': 4, 'Alphabet': core.tla_value(set(alphabet(1))),
                                  'Steps': '{18}', 'Edges': '{1}', 'MaskMode': '"all"'})
        core.expect_violation(ctx, 'Cycles', cfg, inv, 'Cycles ' + inv, workers=4)
    ctx.leg('A', invariants=invs, selftests=['W_SomeGood', 'W_SomeRejected', 'W_SomeMasked',
                                             'SelfTest_DevTotal(last sample dropped => C12_Total violated)'])

    # ---------------- Legs B/C: the real code on the same domain ------------------------
    import multiprocessing as mp
    jobs = []
    nseq = 0
    for E, L, masks_upto in dom:
        seqs = [s for n in range(1, L + 1) for s in itertools.product(alphabet(E), repeat=n)]
        nseq += len(seqs)
        # container records are comparatively slow: every series up to length 6, sampled above
        chunk = 600
        for c0 in range(0, len(seqs), chunk):
            part = seqs[c0:c0 + chunk]
            jobs.append((E, part, masks_upto, True, pid))
    with mp.Pool(core.NCPU) as pool:
        bad = []
        buf = []
        nrec = 0
        def flush():
            nonlocal buf, nrec
            if buf:
                bad.extend(core.validate_records(ctx, 'CyclesRec', buf, constants={'M': M}, name='CyclesRec'))
                nrec += len(buf)
                buf = []
        for recs in pool.imap_unordered(gen_records, jobs):
            for r in recs:
                key = (tuple(r.get('p', ())), r.get('step'), r.get('edge'))
                if r['kind'] == 'cv' and max(r['out']) >= 1:
                    ctx.nontrivial(key)          # at least two cycles were labelled
                if r['kind'] == 'cv' and r['good'] == 1 and len(r['p']) >= 4 and max(r['out']) >= 0 and -1 in r['out']:
                    ctx.sample({k: r[k] for k in ('kind', 'p', 'step', 'edge', 'good', 'mask', 'out')})
            buf.extend(recs)
            if len(buf) >= 120000:
                flush()
        flush()
        # long float phases
        nlong = ctx.pick(16, 160)
        ljobs = [(rng_seed * 1000 + i, nlong // 16 or 1, pid) for i in range(16)]
        lrecs = [r for rs in pool.imap_unordered(long_records, ljobs) for r in rs]
    for r in lrecs[:1]:
        ctx.sample({'kind': 'wraps', 'n': r['n'], 'nwraps': len(r['wraps']), 'labels_max': max(r['out'])})
    bad.extend(core.validate_records(ctx, 'CyclesRec', lrecs, constants={'M': M}, name='CyclesRec-long', chunk=40))
    ctx.leg('BC', enumerated_series=nseq, records=nrec + len(lrecs), long_float_series=len(lrecs))
    ctx.cov['exhaustive'] = True
    ctx.cov['rule'] = ('every phase series of length 1..L over the 5-value alphabet {E,E+1,M/2,M-E-1,M-E} (M=24) x 3 '
                       'phase_step values x phase_edge E in {1,2,6} lattice units (quick L=6/5/5, thorough 8/7/7; for C13 5/4/4 and 7/6/6 with every boolean mask up to length 4 resp. 5), all '
                       'boolean masks for short series, vector/column/two-column layouts, plus long float phases; '
                       'non-trivial = distinct (series,step,edge) on which the real code labelled >= 2 cycles')
    ctx.assumptions += ['wrap threshold is a half-integer number of lattice units (|diff| == phase_step ties are not exercised)',
                        'float images of lattice values: val[E]=phase_edge and val[M-E]=2*pi-phase_edge exactly, k*2*pi/24 otherwise']
    seen = set()
    for r, clause in bad:
        sig = (r['kind'], clause, r.get('good'), r.get('hasmask'))
        if sig in seen and len(seen) > 12:
            continue
        seen.add(sig)
        ctx.violation('%s: real code disagrees with spec clause %s on %s' % (pid, clause, {k: r[k] for k in r if k != 'wraps'} if r['kind'] != 'wraps' else {'kind': 'wraps', 'n': r['n'], 'seed': r['seed'], 'good': r['good']}),
                      {'record': r if r['kind'] != 'wraps' else {'kind': 'wraps', 'seed': r['seed'], 'n': r['n'], 'good': r['good']}, 'clause': clause})
    return ctx.finish()


def replay(pid, path):
    """Re-run one stored case: regenerate the records of that phase series from the real code and
    let TLC validate them again (verbose)."""
    import json
    rec = json.load(open(path))['replay']['record']
    ctx = Ctx(pid)
    if rec['kind'] == 'wraps':
        recs = [r for r in long_records((rec['seed'], 10, pid)) if r['n'] == rec['n'] and r['good'] == rec['good']]
    else:
        recs = gen_records((rec['edge'], [tuple(rec['p'])], 6, True, pid))
    bad = core.validate_records(ctx, 'CyclesRec', recs, constants={'M': M})
    for r, clause in bad:
        print('REJECTED by spec clause', clause, ':', {k: v for k, v in r.items() if k != 'wraps'})
        ctx.violation('%s replay: %s' % (pid, clause), {'record': r if r['kind'] != 'wraps' else {'kind': 'wraps', 'seed': r['seed'], 'n': r['n'], 'good': r['good']}, 'clause': clause})
    print('replayed %d records of the stored case, %d rejected' % (len(recs), len(bad)))
    return ctx.finish()


def main(pid):
    rp = os.environ.get('VERIF_REPLAY')
    core.main_wrap((lambda: replay(pid, rp)) if rp else (lambda: run(pid)))
