"""C14: per-cycle statistics, phase alignment and phase binning use exactly each cycle's samples.

Leg A : TLC checks projection shape, conservation and locality of spec/CycleStatsDef.tla!Stat on every
        label vector (gaps and non-contiguous labels anywhere) of the enumerated domain.
Leg B/C: the same label vectors x value vectors x 8 reducing functions through get_cycle_stat (both
        output modes); phase_align on linear functions of phase for cycle lengths 8..400 x npoints
        x interpolation kinds; bin_by_phase with explicit integer edges (samples exactly on edges) and
        default edges; records validated by TLC against the specification.
"""
import itertools
import os

import numpy as np

from .. import core
from ..core import Ctx, MachineryError

MISSING = -1000000
FUNCS = {'sum': np.sum, 'len': len, 'max': np.max, 'min': np.min, 'first': lambda a: a[0], 'last': lambda a: a[-1],
         'range': lambda a: np.max(a) - np.min(a), 'mean_times_len': np.mean}
MP = 2880      # fine phase lattice for alignment (points per 2 pi)


def labels(maxlen):
    out = []
    for n in range(1, maxlen + 1):
        for l in itertools.product((-1, 0, 1, 2), repeat=n):
            s = set(l) - {-1}
            if s == set(range(len(s))):
                out.append(l)
    return out


def ints(a, scale=1.0):
    a = np.asarray(a, float) * scale
    r = np.rint(a)
    ok = bool(np.all(np.abs(a[~np.isnan(a)] - r[~np.isnan(a)]) < 1e-6))
    return [MISSING if np.isnan(x) else int(y) for x, y in zip(a, r)], ok


def gen_stat(args):
    emd = core.import_emd()
    recs = []
    for lab, v in args:
        la = np.array(lab, dtype=int)
        # value vectors are presented as float64 and as integer arrays in turn (a statistic must not inherit the values' dtype)
        va = np.array(v, dtype=(float if (sum(v) + len(lab)) % 2 == 0 else np.int64))
        for f, fn in FUNCS.items():
            o = core.guarded(emd.cycles.get_cycle_stat, la, va, func=fn)
            p = core.guarded(emd.cycles.get_cycle_stat, la, va, func=fn, out='samples')
            if isinstance(o, str) or isinstance(p, str):
                recs.append({'kind': 'stat', 'lab': list(lab), 'v': list(v), 'f': f, 'out': [-99], 'proj': [-99], 'exact': 1, 'err': str(o)})
                continue
            if f == 'mean_times_len':
                cnt = np.array([int((la == c).sum()) for c in range(len(o))], float)
                cntp = np.array([float((la == l).sum()) if l >= 0 else np.nan for l in la])
                o, p = np.asarray(o) * cnt, np.asarray(p) * cntp
            oi, ok1 = ints(o)
            pi, ok2 = ints(p)
            recs.append({'kind': 'stat', 'lab': list(lab), 'v': list(v), 'f': f, 'out': oi, 'proj': pi, 'exact': int(ok1 and ok2)})
    return recs


def gen_align(args):
    seed, count = args
    emd = core.import_emd()
    rng = np.random.RandomState(seed)
    recs = []
    U = 2 * np.pi / MP
    for _ in range(count):
        ncyc = int(rng.randint(1, 5))
        P = int(rng.choice([2, 3, 4, 6, 8, 12, 16, 24, 32, 48, 64]))
        kind = str(rng.choice(['linear', 'quadratic', 'cubic']))
        a, b = int(rng.choice([1, 2, -3])), int(rng.choice([0, 5, -7]))
        ks, lab = [], []
        for c in range(ncyc):
            n = int(rng.choice([8, 9, 12, 30, 100, 400]))
            k = np.sort(rng.choice(np.arange(1, MP - 1), size=n, replace=False))
            ks += list(k)
            lab += [c] * n
            if rng.rand() < .3:
                ks.append(int(rng.randint(0, MP)))
                lab.append(-1)
        ks = np.array(ks)
        ip = ks * U
        x = (a * ks + b).astype(float)
        o = core.guarded(emd.cycles.phase_align, ip, x, cycles=np.array(lab), npoints=P, interp_kind=kind)
        g2 = [(2 * j - 1) * MP // P for j in range(1, P + 1)]
        if isinstance(o, str):
            recs.append({'kind': 'align', 'a': a, 'b': b, 'g2': g2, 'out2': [-99], 'exact': 1, 'err': o, 'seed': seed})
            continue
        avg, bins = o
        for c in range(ncyc):
            col = avg[:, c]
            o2 = np.rint(2 * col)
            exact = int(np.all(np.abs(2 * col - o2) < 1e-5 * (1 + np.abs(o2).max())) and np.allclose(bins, np.array(g2) * U / 2, rtol=1e-12, atol=0))
            recs.append({'kind': 'align', 'a': a, 'b': b, 'g2': g2, 'out2': [int(v) for v in o2], 'exact': exact, 'seed': seed, 'P': P,
                         'interp': kind, 'cycle_len': int(sum(1 for l in lab if l == c))})
        # a smooth non-linear function of phase: within the linear-interpolation error bound inside the sampled range
        if kind == 'linear':
            xs = np.sin(ip) + .3 * np.cos(2 * ip)
            o = core.guarded(emd.cycles.phase_align, ip, xs, cycles=np.array(lab), npoints=P, interp_kind='linear')
            ok = 0
            if not isinstance(o, str):
                ok = 1
                for c in range(ncyc):
                    ph = ip[np.array(lab) == c]
                    h = np.max(np.diff(ph))
                    inside = (o[1] >= ph[0]) & (o[1] <= ph[-1])
                    err = np.abs(o[0][inside, c] - (np.sin(o[1][inside]) + .3 * np.cos(2 * o[1][inside])))
                    ok &= int(np.all(err <= h * h / 8 * 2.2 + 1e-12))
            recs.append({'kind': 'alignf', 'within_bound': ok, 'seed': seed})
    return recs


def _same(a, b):
    if isinstance(a, str) or isinstance(b, str):
        return a == b and False
    if isinstance(a, (tuple, list)):
        return len(a) == len(b) and all(_same(p, q) for p, q in zip(a, b))
    a, b = np.asarray(a, float), np.asarray(b, float)
    return a.shape == b.shape and np.array_equal(a, b, equal_nan=True)


def gen_forms(args):
    """The `cycles` argument in its documented forms (label vector, Cycles container, an IterateCycles iterator
    obtained from the container - whatever mode that iterator was created with): the `mode` ARGUMENT of the
    routine governs, so every form gives the same result."""
    seed, count = args
    emd = core.import_emd()
    rng = np.random.RandomState(seed)
    recs = []
    for _ in range(count):
        K = int(rng.randint(3, 7))
        ip = np.concatenate([np.sort(rng.uniform(.02, 2 * np.pi - .02, size=int(rng.randint(12, 60)))) for _ in range(K)])
        x = np.cos(ip) + .1 * rng.randn(len(ip))
        C = emd.cycles.Cycles(ip)
        for mode in ('cycle', 'augmented'):
            other = 'augmented' if mode == 'cycle' else 'cycle'
            for fn_name in ('phase_align', 'get_cycle_stat', 'get_control_points'):
                def run(form):
                    if fn_name == 'phase_align':
                        return core.guarded(emd.cycles.phase_align, ip, x, cycles=form, npoints=16, mode=mode)
                    if fn_name == 'get_cycle_stat':
                        return core.guarded(emd.cycles.get_cycle_stat, form, x, mode=mode, func=np.sum)
                    return core.guarded(emd.cycles.get_control_points, x, form, mode=mode)
                ref = run(C)
                if fn_name == 'get_cycle_stat' and mode == 'augmented':
                    # the value itself (the forms below only have to AGREE): the supplied function over the samples from the
                    # first sample beyond 3/2 pi of the previous cycle to the end of the cycle; missing for the first cycle.
                    # (Each cycle here is a monotone ramp, so both definitions of the augmented cycle coincide.)
                    cv = C.cycle_vect
                    want = [np.nan]
                    for c in range(1, int(C.ncycles)):
                        prev = np.where(cv == c - 1)[0]
                        late = prev[ip[prev] > 1.5 * np.pi]
                        stop = np.where(cv == c)[0][-1] + 1
                        want.append(float(np.sum(x[late[0]:stop])) if len(late) else np.nan)
                    ok = (not isinstance(ref, str)) and np.shape(ref) == np.shape(want) and \
                        np.allclose(np.asarray(ref, float), np.array(want), rtol=1e-12, atol=1e-12, equal_nan=True)
                    recs.append({'kind': 'forms', 'fn': 'get_cycle_stat', 'mode': mode, 'form': 'value', 'ref_raised': int(isinstance(ref, str)),
                                 'same': int(ok), 'seed': seed, 'ncycles': int(C.ncycles)})
                forms = {'iterator_default': C.iterate(), 'iterator_same_mode': C.iterate(mode=mode), 'iterator_other_mode': C.iterate(mode=other)}
                if mode == 'cycle':
                    forms['label_vector'] = C.cycle_vect.copy()
                if fn_name == 'get_control_points' and mode == 'cycle':
                    # get_control_points only ever switches a supplied iterator TO augmented mode; an iterator created
                    # in augmented mode combined with mode='cycle' is a contradictory request the routine does not
                    # resolve (DESIGN appendix B) - not demanded here
                    del forms['iterator_other_mode']
                for name, form in forms.items():
                    recs.append({'kind': 'forms', 'fn': fn_name, 'mode': mode, 'form': name, 'ref_raised': int(isinstance(ref, str)),
                                 'same': int(_same(run(form), ref)), 'seed': seed, 'ncycles': int(C.ncycles)})
    return recs


def gen_bin(args):
    emd = core.import_emd()
    recs = []
    for (phi2, x, e2, explicit) in args:
        ph = np.array(phi2, float) / 2.0
        xa = np.array(x, float)
        # (equal weights must not change a mean: every third instance is given a constant weight vector)
        wkw = {'weights': np.full(len(xa), 3.0)} if (len(recs) % 3 == 2) else {}
        if explicit == 'onedge':
            # default edges of nb bins, units of half a bin: an even phi2 is EXACTLY the float of an edge (as the routine itself
            # computes it), an odd one the centre of a bin; a sample on an edge belongs to the bin that starts there
            nb = len(e2) - 1
            edges, centres = emd.spectra.define_hist_bins(0, 2 * np.pi, nb)
            phf = np.array([edges[p // 2] if p % 2 == 0 else centres[p // 2] for p in phi2], float)
            o = core.guarded(emd.cycles.bin_by_phase, phf, xa[:, None], nbins=nb, **wkw)
        elif explicit:
            o = core.guarded(emd.cycles.bin_by_phase, ph, xa[:, None], bin_edges=np.array(e2, float) / 2.0, **wkw)
        else:
            nb = len(e2) - 1
            o = core.guarded(emd.cycles.bin_by_phase, ph * (2 * np.pi / 24), xa[:, None], nbins=nb, **wkw)
        if isinstance(o, str):
            recs.append({'kind': 'bin', 'phi2': list(phi2), 'x': list(x), 'e2': list(e2), 'out60': [-99], 'err': o})
            continue
        avg = np.asarray(o[0], float)
        if avg.ndim == 0 or avg.shape[0] != len(e2) - 1:          # not one value per bin: recorded as such (the clause on the length fails)
            recs.append({'kind': 'bin', 'phi2': list(phi2), 'x': list(x), 'e2': list(e2), 'out60': [-97] * (avg.shape[0] if avg.ndim else 0), 'explicit': int(explicit is True)})
            continue
        avg = avg.reshape(len(e2) - 1, -1)[:, 0]
        o60, ok = ints(avg, 60.0)
        recs.append({'kind': 'bin', 'phi2': list(phi2), 'x': list(x), 'e2': list(e2), 'out60': o60 if ok else [-98], 'explicit': int(explicit is True), 'on_edges': int(explicit == 'onedge')})
    return recs


def gen_ctrl(seqs):
    emd = core.import_emd()
    C = emd.cycles
    recs = []

    def iv(v):
        if isinstance(v, str):
            return -99
        if v is None or (isinstance(v, float) and np.isnan(v)):
            return -1
        return int(v) if float(v) == int(v) else -98
    prev = None
    for sq in seqs:
        x = np.array(sq, dtype=float)
        recs.append({'kind': 'cf', 'x': list(sq), 'peak': iv(core.guarded(C.cf_peak_sample, x, interp=False)),
                     'trough': iv(core.guarded(C.cf_trough_sample, x, interp=False)),
                     'desc': iv(core.guarded(C.cf_descending_zero_sample, x, interp=False)),
                     'asc': iv(core.guarded(C.cf_ascending_zero_sample, x, interp=False))})
        if prev is not None and len(recs) % 5 == 0:
            # two cycles (the previous waveform, a gap, this one; the second sometimes shorter than five samples)
            second = list(sq) if len(recs) % 10 else list(sq)[:3]
            xx = list(prev) + [0] + second
            lab = [0] * len(prev) + [-1] + [1] * len(second)
            o = core.guarded(C.get_control_points, np.array(xx, float), np.array(lab), mode='cycle')
            rows = [[-99] * 5] if isinstance(o, str) else [[iv(v) for v in row] for row in np.asarray(o, dtype=float)]
            recs.append({'kind': 'ctrl', 'x': xx, 'lab': lab, 'rows': rows})
        prev = sq
    return recs


def control_points_leg(ctx):
    """Specification growth beyond C14 (within-cycle control points, spec/ControlPointsDef.tla): theorems model-checked,
    every short waveform pushed through the real cf_* helpers and get_control_points; not a verdict on C14."""
    cfg = os.path.join(ctx.work, 'cp.cfg')
    L = ctx.pick(7, 8)
    invs = ['Interior', 'SignDuality', 'PeakIsHighest']
    core.write_cfg(cfg, init='Init', next_='Next', invariants=invs, constants={'MaxLenC': L, 'LevelsC': '<- Levels3'})
    core.require_ok(core.run_tlc(ctx, 'ControlPoints', cfg, name='ControlPoints theorems'), 'ControlPoints')
    core.write_cfg(cfg, init='Init', next_='Next', invariants=['W_AllFour'], constants={'MaxLenC': 6, 'LevelsC': '<- Levels3'})
    core.expect_violation(ctx, 'ControlPoints', cfg, 'W_AllFour', 'ControlPoints W_AllFour', workers=2)
    seqs = [q for n in range(5, L + 1) for q in itertools.product((-1, 0, 1), repeat=n)]
    rng = np.random.RandomState(ctx.seed)
    seqs += [tuple(int(v) for v in rng.randint(-2, 3, size=int(rng.randint(5, 12)))) for _ in range(ctx.pick(500, 5000))]
    recs = [r for rs in core.pmap(gen_ctrl, [seqs[i::16] for i in range(16)]) for r in rs]
    cov0 = (ctx.cov['traces_validated_against_impl'], ctx.cov['evaluations'])
    bad = core.validate_records(ctx, 'ControlPointsRec', recs, name='ControlPointsRec')
    ctx.cov['traces_validated_against_impl'], ctx.cov['evaluations'] = cov0       # not counted towards C14's coverage
    for clause in sorted(set(c for _, c in bad)):
        rs = [r for r, c in bad if c == clause]
        ctx.extra('%s disagrees with ControlPointsDef on %d records; first: %s' % (clause, len(rs), rs[0]))
    ctx.leg('control points (beyond C14, not a verdict)', invariants=invs, records=len(recs), mismatches=len(bad))


def run():
    ctx = Ctx('C14')
    control_points_leg(ctx)
    L = ctx.pick(4, 5)
    cfg = os.path.join(ctx.work, 'cs.cfg')
    invs = ['ProjectionShape', 'Conservation', 'Locality']
    consts = {'MaxLen': L, 'Vals': '{0, 1, 5}'}
    core.write_cfg(cfg, init='Init', next_='Next', invariants=invs, constants=consts)
    res = core.run_tlc(ctx, 'CycleStats', cfg, name='CycleStats theorems L<=%d' % L, timeout=3000)
    core.require_ok(res, 'Leg A CycleStats')
    core.write_cfg(cfg, init='Init', next_='Next', invariants=['W_NonContiguous'], constants=dict(consts, MaxLen=3))
    core.expect_violation(ctx, 'CycleStats', cfg, 'W_NonContiguous', 'CycleStats W_NonContiguous')
    labs = labels(L)
    items = [(l, v) for l in labs for v in itertools.product((0, 1, 5), repeat=len(l))]
    if res['distinct'] - len(labs) != len(items):
        raise MachineryError('domain mismatch: model %d, harness %d' % (res['distinct'] - len(labs), len(items)))
    import multiprocessing as mp
    bad = []
    bins = []
    rng = np.random.RandomState(ctx.seed)
    # explicit integer edges (doubled units): samples exactly on edges, below the first and at/after the last edge
    for e2 in ([0, 4, 8, 12], [2, 4, 10], [0, 2], [0, 2, 4, 6, 8, 10, 12, 14, 16]):
        for _ in range(ctx.pick(40, 400)):
            n = int(rng.randint(1, 7))
            bins.append((list(rng.randint(-2, e2[-1] + 3, n)), list(rng.randint(0, 7, n)), e2, True))
    for nb in (2, 3, 4, 6, 8, 12, 24):
        for _ in range(ctx.pick(20, 200)):
            n = int(rng.randint(1, 7))
            bins.append((list(2 * rng.randint(0, 24, n) + 1), list(rng.randint(0, 7, n)), [2 * b * 24 // nb for b in range(nb + 1)], False))
    for nb in (16, 32, 64, 24, 5):
        for _ in range(ctx.pick(20, 200)):
            n = int(rng.randint(1, 9))
            bins.append((list(rng.randint(0, 2 * nb, n)), list(rng.randint(0, 7, n)), [2 * b for b in range(nb + 1)], 'onedge'))
    with mp.Pool(core.NCPU) as pool:
        recs = [r for rs in pool.imap_unordered(gen_stat, [items[i:i + 300] for i in range(0, len(items), 300)]) for r in rs]
        na = ctx.pick(160, 1600)
        recs += [r for rs in pool.imap_unordered(gen_align, [(ctx.seed * 100 + i, na // 16) for i in range(16)]) for r in rs]
        recs += [r for rs in pool.imap_unordered(gen_bin, [bins[i::16] for i in range(16)]) for r in rs]
        recs += [r for rs in pool.imap_unordered(gen_forms, [(ctx.seed * 100 + i, ctx.pick(2, 10)) for i in range(16)]) for r in rs]
    bad = core.validate_records(ctx, 'CycleStatsRec', recs, name='CycleStatsRec')
    kinds = {}
    for r in recs:
        kinds[r['kind']] = kinds.get(r['kind'], 0) + 1
        if r['kind'] == 'stat' and len(set(r['lab']) - {-1}) >= 2 and -1 in r['lab']:
            ctx.nontrivial((tuple(r['lab']), tuple(r['v']), r['f']))
    ctx.sample_first([r for r in recs if r['kind'] == 'stat' and r['lab'] == [0, -1, 0, 1] and r['f'] == 'sum'] or recs[:1])
    ctx.sample_first([r for r in recs if r['kind'] == 'align'])
    ctx.sample_first([r for r in recs if r['kind'] == 'bin'])
    ctx.leg('A', invariants=invs)
    ctx.leg('BC', records=kinds)
    ctx.cov['exhaustive'] = True
    ctx.cov['rule'] = ('every label vector of length 1..%d over {-1,0,1,2} whose labels are 0..K-1 (gaps and non-contiguous labels anywhere) x every value vector over {0,1,5} x '
                       '{sum,len,max,min,first,last,range,mean} x both output modes; phase_align on linear functions of phase (cycle lengths 8..400, npoints 2..64, 3 interpolation kinds, '
                       'unlabelled samples in between) and on a smooth non-linear function (error bound); bin_by_phase with explicit integer edges (samples on edges / out of range) '
                       'and default edges; phase_align / get_cycle_stat / get_control_points with the cycles given as label vector, Cycles container and IterateCycles iterators created with either mode x mode argument {cycle, augmented}; non-trivial = stat records with >= 2 cycles and a gap' % L)
    seen = {}
    for r, clause in bad:
        seen.setdefault(clause, []).append(r)
    for clause, rs in seen.items():
        r = min(rs, key=lambda q: len(q.get('lab', q.get('phi2', q.get('out2', [])))))
        ctx.violation('C14: %s violated on %d records; smallest: %s' % (clause, len(rs), r), {'clause': clause, 'record': r})
    return ctx.finish()


def main(arg=None):
    core.main_wrap(run)
