"""C04 / C01 / C03: single-IMF extraction, the classic sift loop, peeling and caps.

Leg A : TLC model-checks spec/SiftLoop.tla (one extraction) and spec/Sift.tla (outer loop) over all
        environment choices: invariants, action properties and liveness.
Leg B : every maximal behaviour of the bounded models (exported by TLC as JSON from the terminal
        states) is replayed through the UNMODIFIED emd.sift.get_next_imf / sift with the numeric
        kernels replaced by scripted stubs; iteration counts, exceptions, flags and the returned
        arrays (token map evaluated on the stub arrays) must agree.
Leg C : real executions on real-valued signals are recorded event by event and validated against
        spec/SiftLoopTrace.tla / spec/SiftTrace.tla by TLC.
"""
import itertools
import json
import os
import re

import numpy as np

from .. import core
from ..core import Ctx, MachineryError
from ..instrument import Recorder, ScriptedKernel, step12

LOOP_INVS = ['TypeOK', 'IterateShape', 'ReturnRule', 'FixedCount', 'FirstHit', 'Bounded', 'NeverUnconverged',
             'RaiseOnlyAtLimit']
LOOP_PROPS = ['IterRel', 'Terminates']
DUMMY = {'Methods': '{"sd"}', 'MaxItersSet': '{1}', 'Steps': '{12}', 'EnergySet': '{FALSE}', 'Dev': '{}'}
# whitespace tolerant: TLC breaks long tuples over several lines; the JSON payload is one TLA+ string with \" escapes
_RE_BEH = re.compile(r'<<\s*"BEHAVIOUR",\s*"((?:[^"\\]|\\.)*)"\s*>>')


def parse_behaviours(out):
    res = []
    if len(_RE_BEH.findall(out)) != out.count('"BEHAVIOUR"'):
        raise MachineryError('could not parse every BEHAVIOUR line exported by TLC (%d of %d)' % (len(_RE_BEH.findall(out)), out.count('"BEHAVIOUR"')))
    for m in _RE_BEH.finditer(out):
        res.append(json.loads(m.group(1).replace('\\"', '"').replace('\\\\', '\\')))
    return res


# ---------------------------------------------------------------------------------------------
# corpus of real-valued signals (the families named in the quantifiers)

def signal(kind, n, rng):
    t = np.arange(n)
    if kind == 'noise':
        return rng.randn(n)
    if kind == 'walk':
        return np.cumsum(rng.randn(n))
    if kind == 'tones':
        return np.sin(2 * np.pi * t * .11 + rng.rand()) + .5 * np.sin(2 * np.pi * t * .031 + 1) + .004 * t
    if kind == 'amfm':
        return (1 + .5 * np.sin(2 * np.pi * t * .01)) * np.sin(2 * np.pi * (.05 * t + 2 * np.sin(2 * np.pi * t * .004)))
    if kind == 'plateau':
        v = np.round(2 * rng.randn(n))
        return v.astype(np.int64) if rng.rand() < .3 else v
    if kind == 'const':
        return np.full(n, float(rng.randn()))
    if kind == 'ramp':
        return np.linspace(-1, 2, n) * float(rng.choice([-1, 1]))
    raise ValueError(kind)


KINDS = ('noise', 'walk', 'tones', 'amfm', 'plateau', 'const', 'ramp')
STEPS = (1, .5, 1 / 3, .25, .75)
INTERPS = ('splrep', 'pchip', 'mono_pchip')


def imf_opts_for(rng, maxit_choices=(1, 2, 3, 5, 10, 50, 1000)):
    method = str(rng.choice(['sd', 'rilling', 'fixed']))
    o = {'stop_method': method, 'env_step_size': float(rng.choice(STEPS))}
    if method == 'fixed':
        o['max_iters'] = int(rng.choice([1, 2, 3, 5, 10, 30]))
    else:
        o['max_iters'] = int(rng.choice(maxit_choices))
    if method == 'sd':
        o['sd_thresh'] = float(rng.choice([.01, .05, .1, .2, .5]))
    if method == 'rilling':
        o['rilling_thresh'] = tuple(rng.choice([.05, .1, .2]) * np.array([1, 10, 1]))
    return o


# ---------------------------------------------------------------------------------------------
# C04 Leg B: scripted replay of one-extraction behaviours

def replay_loop_behaviour(emd, b, n=24, seed=0):
    """Returns None if the real code reproduces behaviour b, else a description of the difference."""
    cfg = b['cfg']
    rng = np.random.RandomState(seed)
    X = rng.randn(n)
    script = [{'niters': b['niters'], 'missAt': b['missAt'], 'stopAt': b['stopAt'], 'efired': b['efired']}]
    kw = dict(env_step_size=cfg['step'] / 12.0, max_iters=cfg['maxIters'], stop_method=cfg['method'],
              energy_thresh=50 if cfg['energy'] else None)
    with ScriptedKernel(emd, script, n, seed=seed, miss_side=seed) as K:
        out = core.guarded(emd.sift.get_next_imf, X, **kw)
    ncalls = K.calls[0] if K.calls else 0
    if b['pc'] == 'raised':
        if out != 'raise:EMDSiftCovergeError':
            return 'model raises the convergence error after %d iterations, code gave %s' % (b['niters'], out if isinstance(out, str) else 'a result')
        if ncalls != 2 * (b['niters'] - 1) + 0 and ncalls != 2 * b['niters']:
            return 'raised after %d envelope requests, model says %d iterations' % (ncalls, b['niters'])
        return None
    if isinstance(out, str):
        return 'model returns after %d iterations, code %s' % (b['niters'], out)
    imf, flag = out
    if ncalls != 2 * b['niters']:
        return 'code requested %d envelopes, model ran %d iterations' % (ncalls, b['niters'])
    if bool(flag) != b['flag']:
        return 'continue flag %s, model %s' % (flag, b['flag'])
    want = (b['proto'][0] / 12.0) * X[:, None]
    for j, cj in enumerate(b['proto'][1:], start=1):
        want = want + (cj / 12.0) * K.mean(0, j)
    if imf.shape != want.shape or not np.allclose(imf, want, rtol=0, atol=1e-12 * (1 + np.abs(want).max())):
        return 'returned array differs from token map %s (max err %.3g)' % (b['proto'], float(np.abs(imf - want).max()) if imf.shape == want.shape else -1)
    return None


def _replay_loop_job(args):
    emd = core.import_emd()
    out = []
    for i, b in args:
        out.append((i, replay_loop_behaviour(emd, b, seed=i % 7)))
    return out


# ---------------------------------------------------------------------------------------------
# C04 Leg C: real extractions, recorded

def _real_extractions(args):
    seed, count, maxn = args
    emd = core.import_emd()
    rng = np.random.RandomState(seed)
    traces, info = [], []
    for _ in range(count):
        kind = KINDS[rng.randint(len(KINDS))]
        n = int(rng.choice([3, 4, 5, 8, 16, 40, 100, maxn]))
        x = signal(kind, n, rng)
        # the stopping rules are ratios: they must not depend on the unit the data is expressed in (femto-scale data,
        # exact powers of two and a decimal factor), nor on the dtype the samples are stored in
        u = rng.rand()
        if u < .15:
            x = np.asarray(x, float) * float(rng.choice([1e-9, 2.0 ** -40, 1e-15, 1e6]))
        elif u < .25:
            # (int16 with amplitudes in the hundreds: squares of the samples do not fit the type)
            x = np.round(np.asarray(x, float) * [40, 400][rng.randint(2)]).astype([np.int64, np.int16][rng.randint(2)])
        elif u < .3:
            x = np.asarray(x, float).astype(np.float32)
        o = imf_opts_for(rng)
        if rng.rand() < .3:
            o['energy_thresh'] = float(rng.choice([10, 50, 0]))       # 0 dB is a threshold like any other, not "no threshold"
        eo = {'interp_method': str(rng.choice(INTERPS))}
        xo = {'pad_width': int(rng.randint(1, 5))}
        if rng.rand() < .2:
            xo['parabolic_extrema'] = True
        if rng.rand() < .25:           # custom np.pad options for the extrema padding
            xo['mag_pad_opts'] = [{'mode': 'mean', 'stat_length': 3}, {'mode': 'reflect'}, {'mode': 'median', 'stat_length': 3}][rng.randint(3)]
        if rng.rand() < .1:
            xo['loc_pad_opts'] = {'mode': 'reflect', 'reflect_type': 'odd'}
        with Recorder(emd, check_env=True) as R:
            core.guarded(emd.sift.get_next_imf, x, envelope_opts=eo, extrema_opts=xo, _timeout=20, **o)
        for ev, me in zip(R.traces, R.meta):
            if me['traceable']:
                traces.append(ev)
                info.append({'kind': kind, 'n': n, 'opts': {k: (list(v) if isinstance(v, tuple) else v) for k, v in o.items()},
                             'envelope_opts': eo, 'extrema_opts': xo, 'seed': seed, 'niters': me['niters'], 'raised': me['raised']})
    return traces, info


def stop_rule_records(emd, seed, count):
    """Direct calls of the three stopping rules on data whose exact summary is known (StopRulesDef)."""
    rng = np.random.RandomState(seed)
    S = emd.sift
    recs = []
    TOLS = [(1, 20, .05), (1, 10, .1), (1, 4, .25), (1, 2, .5), (1, 5, .2)]
    for it in range(count):
        tp, tq, tol = TOLS[rng.randint(len(TOLS))]
        # Rilling: envelopes mean+1 / mean-1 (amplitude exactly 1), so E = |mean| exactly.  Every third instance uses dyadic
        # thresholds sd1 = 1/16, sd2 = 3/4 and puts samples EXACTLY ON them: sd1 / sd2 are "maximum thresholds" - a sample
        # equal to the threshold does not exceed it.
        N = int(rng.choice([4, 10, 20, 40, 60, 100]))
        if it % 3 == 0 and (N * tp) % tq == 0:
            n1 = N * tp // tq + int(rng.randint(-1, 2))            # at / next to the tolerated fraction
        else:
            n1 = int(rng.randint(0, N + 1))
        n1 = min(max(n1, 0), N)
        n2 = int(rng.randint(0, n1 + 1)) if rng.rand() < .3 else 0
        if it % 3 == 1:
            sd1, sd2 = .0625, .75
            below = [0.03125, 0.0625][int(rng.randint(2))]          # 0.0625 == sd1: not above it
            mid = [0.125, 0.75][int(rng.randint(2))]                # 0.75 == sd2: above sd1, not above sd2
            a = np.array([1.0] * n2 + [mid] * (n1 - n2) + [below] * (N - n1))
        else:
            sd1, sd2 = .05, .5
            a = np.array([.75] * n2 + [.0625] * (n1 - n2) + [0.03125, 0.0][it % 2:][:1] * (N - n1))
        a = a * rng.choice([-1, 1], size=N)
        rng.shuffle(a)
        out = core.guarded(S.rilling_stop, a + 1, a - 1, sd1=sd1, sd2=sd2, tol=tol, niters=3)
        recs.append({'rule': 'rilling', 'N': N, 'n1': n1, 'n2': n2, 'tp': tp, 'tq': tq, 'raised': int(isinstance(out, str)),
                     'fired': -1 if isinstance(out, str) else int(bool(out[0])), 'on_threshold': int(it % 3 == 1)})
        # SD: integer-valued iterates, dyadic thresholds
        tp2, tq2, thr = [(1, 8, .125), (1, 4, .25), (1, 2, .5), (1, 16, .0625)][rng.randint(4)]
        n = int(rng.choice([2, 4, 8]))
        cur = rng.randint(-4, 5, size=n).astype(float)
        if not cur.any():
            cur[0] = 2.0
        d = rng.randint(-2, 3, size=n).astype(float)
        if it % 3 == 0:          # aim at the threshold exactly: sum(d^2) * tq == tp * sum(cur^2) when possible
            den = int(np.sum(cur ** 2))
            if (den * tp2) % tq2 == 0:
                want = den * tp2 // tq2
                d = np.zeros(n)
                k = 0
                while want > 0 and k < n:
                    r = int(np.floor(np.sqrt(want)))
                    d[k] = r
                    want -= r * r
                    k += 1
                if want > 0:
                    d = rng.randint(-2, 3, size=n).astype(float)
        out = core.guarded(S.sd_stop, cur[:, None], (cur - d)[:, None], sd=thr, niters=2)
        recs.append({'rule': 'sd', 'num': int(np.sum(d ** 2)), 'den': int(np.sum(cur ** 2)), 'tp': tp2, 'tq': tq2, 'raised': int(isinstance(out, str)),
                     'fired': -1 if isinstance(out, str) else int(bool(out[0]))})
        # energy: integer-valued signals with sums of squares A and B, thresholds of 0 / 20 / 40 dB (ratios 1, 10, 100).
        # One call in three sits next to the threshold (A = B * 10^K +- 1); the exact tie is only asked for K = 0, where
        # both logarithms are the same number (for K > 0 the two rounded logarithms decide a tie, not the rule).
        K = int(rng.randint(0, 3))
        bvec = rng.randint(-3, 4, size=int(rng.choice([3, 6, 12]))).astype(float)
        if not bvec.any():
            bvec[0] = 1.0
        B = int(np.sum(bvec ** 2))
        if it % 3 == 2:
            A = B * 10 ** K + int(rng.choice([-1, 1] if K else [-1, 0, 1]))
        else:
            A = int(rng.randint(1, 4 * B * 10 ** K + 2))
        A = max(A, 1)
        avec, left = [], A
        while left > 0:                 # A as a sum of integer squares (greedy)
            r = int(np.floor(np.sqrt(left)))
            avec.append(float(r) * int(rng.choice([-1, 1])))
            left -= r * r
        avec = np.array(avec + [0.0] * int(rng.randint(0, 3)))
        rng.shuffle(avec)
        out = core.guarded(S.energy_stop, avec, bvec, thresh=20 * K, niters=4)
        recs.append({'rule': 'energy', 'A': A, 'B': B, 'K': K, 'raised': int(isinstance(out, str)),
                     'fired': -1 if isinstance(out, str) else int(bool(out[0]))})
        ni, mx = int(rng.randint(1, 8)), int(rng.randint(1, 8))
        out = core.guarded(S.fixed_stop, ni, mx)
        recs.append({'rule': 'fixed', 'niters': ni, 'maxit': mx, 'raised': int(isinstance(out, str)), 'fired': -1 if isinstance(out, str) else int(bool(out))})
    return recs


STOP_INVS = ['RillingAnyLargeContinues', 'RillingMonotone', 'RillingBoundary', 'SdStrict', 'SdMonotone', 'FixedOnce', 'EnergyBoundary', 'EnergyMonotone']


def stop_rules_leg(ctx, emd):
    cfg = os.path.join(ctx.work, 'sr.cfg')
    consts = {'MaxN': ctx.pick(8, 20), 'Tols': '<- Tols3'}
    core.write_cfg(cfg, init='Init', next_='Next', invariants=STOP_INVS, constants=consts)
    res = core.run_tlc(ctx, 'StopRules', cfg, name='StopRules laws')
    core.require_ok(res, 'Leg A StopRules')
    for w in ('W_RillingBoundaryReached', 'W_SdEqualReached', 'W_EnergyBoundaryReached'):
        core.write_cfg(cfg, init='Init', next_='Next', invariants=[w], constants={'MaxN': 20, 'Tols': '<- Tols3'})
        core.expect_violation(ctx, 'StopRules', cfg, w, 'StopRules ' + w, workers=2)
    recs = stop_rule_records(emd, ctx.seed, ctx.pick(1500, 15000))
    bad = core.validate_records(ctx, 'StopRulesRec', recs, name='StopRulesRec')
    for r in recs:
        if r['rule'] == 'rilling' and r['n1'] * r['tq'] == r['tp'] * r['N'] and r['n2'] == 0:
            ctx.nontrivial(('stop', 'rilling-boundary', r['N'], r['tq']))
        elif r['rule'] == 'sd' and r['num'] * r['tq'] == r['tp'] * r['den']:
            ctx.nontrivial(('stop', 'sd-boundary', r['den'], r['tq']))
        elif r['rule'] == 'energy' and abs(r['A'] - r['B'] * 10 ** r['K']) <= 1:
            ctx.nontrivial(('stop', 'energy-next-to-threshold', r['K'], r['A'] - r['B'] * 10 ** r['K']))
    seen = set()
    for r, clause in bad:
        if clause in seen:
            continue
        seen.add(clause)
        ctx.violation('C04 stop rules: %s violated by a direct call: %s' % (clause, r), {'leg': 'stop-rules', 'clause': clause, 'record': r})
    ctx.leg('stop-rules', invariants=STOP_INVS, records=len(recs), mismatches=len(bad),
            at_rilling_boundary=sum(1 for r in recs if r['rule'] == 'rilling' and r['n1'] * r['tq'] == r['tp'] * r['N'] and r['n2'] == 0),
            next_to_energy_threshold=sum(1 for r in recs if r['rule'] == 'energy' and abs(r['A'] - r['B'] * 10 ** r['K']) <= 1),
            at_sd_boundary=sum(1 for r in recs if r['rule'] == 'sd' and r['num'] * r['tq'] == r['tp'] * r['den']))


def run_c04():
    ctx = Ctx('C04')
    emd = core.import_emd()
    stop_rules_leg(ctx, emd)
    from .padloop import padloop_leg
    padloop_leg(ctx, 'C04')
    K = ctx.pick(5, 6)
    consts = {'Methods': '{"sd", "rilling", "fixed"}', 'MaxItersSet': core.tla_value(set(range(1, K + 1))),
              'Steps': '{12, 6, 4}', 'EnergySet': '{TRUE, FALSE}', 'Dev': '{}'}
    cfg = os.path.join(ctx.work, 'sl.cfg')
    core.write_cfg(cfg, spec='Spec', invariants=LOOP_INVS + ['IndInvHolds'], properties=LOOP_PROPS + ['RefinesInd', 'VariantFalls'], constants=consts)
    res = core.run_tlc(ctx, 'SiftLoop', cfg, name='SiftLoop safety+liveness', coverage=True)
    core.require_ok(res, 'Leg A SiftLoop')
    # every iteration limit, not only 1..K: inductive invariant and ranking function on the typed control skeleton
    core.apalache(ctx, 'SiftLoopInd', [['--init=Init', '--inv=IndInv', '--length=0'], ['--init=IndInit', '--inv=IndInv', '--length=1'],
                                       ['--init=IndInit', '--inv=VariantDecreases', '--length=1']],
                  'SiftLoopInd!IndInv inductive (Bounded, NeverUnconverged, RaiseOnlyAtLimit, FixedCount for EVERY max_iters >= 1) and '
                  'Variant strictly decreasing on every step (termination within 4*(max_iters+2)+3 steps); SiftLoop refines SiftLoopInd (TLC: RefinesInd)',
                  cinit=None)
    cov = core.coverage_counts(res['out'])
    for a in ('MTop', 'MEnvOK', 'MEnvMissing', 'MStopRule', 'MEnergyTest'):
        if not cov.get(a):
            raise MachineryError('vacuity: action %s never taken in the SiftLoop model' % a)
    core.write_cfg(cfg, spec='Spec', invariants=['Export'], constants=consts)
    res = core.run_tlc(ctx, 'SiftLoop', cfg, name='SiftLoop behaviour export', workers=1)
    core.require_ok(res, 'SiftLoop export')
    behs = parse_behaviours(res['out'])
    if len(behs) < 100:
        raise MachineryError('behaviour export produced only %d behaviours' % len(behs))
    # spec-mutation self-tests
    for dev, inv in (('{"StepOnReturn"}', 'ReturnRule'), ('{"FlagOnMidSiftExtremaLoss"}', 'ReturnRule')):
        core.write_cfg(cfg, spec='Spec', invariants=[inv], constants=dict(consts, Dev=dev, MaxItersSet='{3}'))
        core.expect_violation(ctx, 'SiftLoop', cfg, inv, 'SiftLoop Dev=' + dev, workers=2)
    for w in ('W_Raise', 'W_MissLater', 'W_StopLater', 'W_EnergyFlag'):
        core.write_cfg(cfg, spec='Spec', invariants=[w], constants=dict(consts, MaxItersSet='{4}'))
        core.expect_violation(ctx, 'SiftLoop', cfg, w, 'SiftLoop ' + w, workers=2)
    ctx.leg('A', invariants=LOOP_INVS, properties=LOOP_PROPS, action_coverage=cov, behaviours=len(behs))
    # Leg B
    import multiprocessing as mp
    idx = list(enumerate(behs))
    jobs = [idx[i:i + 40] for i in range(0, len(idx), 40)]
    nb_bad = 0
    with mp.Pool(core.NCPU) as pool:
        for part in pool.imap_unordered(_replay_loop_job, jobs):
            for i, diff in part:
                b = behs[i]
                if b['niters'] > 1 or b['pc'] == 'raised':
                    ctx.nontrivial(('B', i))
                if diff:
                    nb_bad += 1
                    if nb_bad <= 5:
                        ctx.violation('C04 leg B: real get_next_imf does not reproduce TLC behaviour %s: %s' % (b, diff),
                                      {'leg': 'B', 'behaviour': b, 'difference': diff})
        ctx.cov['traces_validated_against_impl'] += len(behs) - nb_bad
        ctx.cov['evaluations'] += len(behs)
        ctx.sample({'leg': 'B', 'behaviour': behs[len(behs) // 2]})
        # Leg C
        nreal = ctx.pick(4800, 48000)
        parts = pool.map(_real_extractions, [(ctx.seed * 1000 + i, nreal // 16, ctx.pick(150, 400)) for i in range(16)])
    traces = [t for p in parts for t in p[0]]
    info = [t for p in parts for t in p[1]]
    from .repotests import repo_tests_leg
    repo_tests_leg(ctx, DUMMY)
    rej = core.validate_traces(ctx, 'SiftLoopTrace', traces, constants=DUMMY, name='SiftLoopTrace')
    # binding self-test: corrupted copies of accepted traces must be rejected
    acc = [t for i, t in enumerate(traces) if i not in set(r[0] for r in rej) and len(t) >= 8 and t[-1]['e'] == 'Ret']
    if acc:
        import copy
        c1 = copy.deepcopy(acc[0]); [e for e in c1 if e['e'] == 'Stop'][0]['fired'] ^= 1            # flipped stop decision
        c2 = [e for e in copy.deepcopy(acc[0]) if not (e['e'] == 'Env' and e['k'] == 2)]             # dropped event
        c3 = copy.deepcopy(acc[0]); c3[-1]['eq_full'] = 0; c3[-1]['eq_none'] = 0                      # wrong returned value
        c4 = copy.deepcopy(acc[0]); c4[-1]['flag'] ^= 1                                               # wrong flag
        st = core.validate_traces(ctx, 'SiftLoopTrace', [c1, c2, c3, c4], constants=DUMMY, name='SiftLoopTrace corruption self-test')
        ctx.cov['traces_validated_against_impl'] -= 4 - len(st)
        ctx.cov['evaluations'] -= 4
        if len(st) != 4:
            raise MachineryError('binding self-test: only %d of 4 corrupted traces were rejected' % len(st))
        ctx.leg('selftest', corrupted_traces_rejected=4)
    for t, me in zip(traces, info):
        if me['niters'] > 1:
            ctx.nontrivial(('C', tuple(e['e'][0] + str(e.get('k', '')) + str(e.get('ok', e.get('fired', ''))) for e in t)))
    ctx.sample({'leg': 'C', 'config': info[0], 'trace': traces[0]})
    nraised = sum(1 for m in info if m['raised'])
    ctx.leg('B', behaviours_replayed=len(behs), mismatches=nb_bad)
    ctx.leg('C', real_extractions=len(traces), raised_convergence_error=nraised, rejected=len(rej),
            excluded_near_threshold=sum(1 for t in traces for e in t if e['e'] == 'Stop' and e['near']))
    seen = set()
    for ti, l, clauses in rej:
        key = tuple(clauses)
        if key in seen:
            continue
        seen.add(key)
        ctx.violation('C04 leg C: a real get_next_imf execution is not a behaviour of SiftLoop: event %d %s fails %s; config %s' % (
            l, traces[ti][l - 1] if l - 1 < len(traces[ti]) else '<end>', clauses, info[ti]),
            {'leg': 'C', 'config': info[ti], 'trace': traces[ti], 'event': l, 'clauses': clauses})
    ctx.cov['rule'] = ('Leg B: every maximal behaviour of SiftLoop for methods {sd,rilling,fixed} x max_iters 1..%d x step {1,1/2,1/3} x energy on/off '
                       '(all envelope-missing / stop-fires sequences); Leg C: %d real extractions over 7 signal families x 3 stop rules x thresholds x '
                       'step {1,.5,1/3,.25,.75} x max_iters {1..1000} x 3 interpolants x pad 1..4; non-trivial = distinct behaviours with more than '
                       'one iteration or a raise (by event-sequence signature)' % (K, len(traces)))
    ctx.assumptions += ['independent stop decision: SD ratio sum(mean^2)/sum(iterate^2), Rilling fraction/any tests evaluated by the harness from the recorded envelopes; '
                        'decisions within 1e-9 relative of a threshold are not compared (counted as excluded_near_threshold)',
                        'iterate relation and returned value compared bit-for-bit with the same floating-point expression the documentation implies']
    return ctx.finish()


def main(pid):
    fn = {'C04': run_c04, 'C01': run_c01, 'C03': run_c03}[pid]
    core.main_wrap(fn)


# ---------------------------------------------------------------------------------------------
# C01 / C03 (classic): outer loop

SIFT_INVS = ['RunningResidual', 'Complete', 'ResidualIsInput', 'CapRespected', 'Peel', 'Prefix']
INNER = {  # inner scripts realising an outer "imf" outcome, and what they remove (coefficients of m_1, m_2 over 12)
    'a': ({'niters': 1, 'missAt': 0, 'stopAt': 1}, [12]),            # stop rule fires at once
    'b': ({'niters': 2, 'missAt': 0, 'stopAt': 2}, [6, 12]),         # one step-scaled removal, then full removal
    'c': ({'niters': 2, 'missAt': 2, 'stopAt': 0}, [6]),             # extrema vanish MID-sift: iterate returned, sift continues
}


def count_extrema(v):
    nmax = sum(1 for j in range(1, len(v) - 1) if v[j] > v[j - 1] and v[j] > v[j + 1])
    nmin = sum(1 for j in range(1, len(v) - 1) if v[j] < v[j - 1] and v[j] < v[j + 1])
    return nmax, nmin


def replay_sift_behaviour(emd, b, idx, n=24):
    """Replay one behaviour of Sift.tla through the real sift with a scripted kernel."""
    L = b['layer']
    outs, smalls, cap = b['out'], b['small'], b['cap']
    reached = L if b['pc'] == 'done' else L + 1          # extractions started
    script, removed = [], []
    energy = any(o == 'imf_energy' for o in outs[:reached])
    for k in range(reached):
        o = outs[k]
        if o == 'resid':
            if smalls[k] and k < L:
                return 'skip'                            # a residual with |.| < 1e-8 cannot be scripted
            script.append({'niters': 1, 'missAt': 1, 'stopAt': 0, 'efired': 'no' if energy else 'n/a'})
            removed.append(('none',))
        elif o == 'raise':
            script.append({'niters': 3, 'missAt': 0, 'stopAt': 0, 'efired': 'n/a'})
            removed.append(('none',))
        else:
            if smalls[k]:
                sc, co = {'niters': 1, 'missAt': 0, 'stopAt': 1, 'small': True}, 'input'
            else:
                key = 'abc'[(idx + k) % 3]
                sc, co = dict(INNER[key][0]), INNER[key][1]
            sc['efired'] = 'yes' if o == 'imf_energy' else ('no' if energy else 'n/a')
            script.append(sc)
            removed.append(('coef', co) if co != 'input' else ('input',))
    rng = np.random.RandomState(idx)
    X = rng.randn(n)
    io = {'max_iters': 2, 'stop_method': 'sd', 'env_step_size': .5}
    if energy:
        io['energy_thresh'] = 50
    with ScriptedKernel(emd, script, n, seed=idx, miss_side=idx) as K:
        out = core.guarded(emd.sift.sift, X, sift_thresh=1e-8, max_imfs=(cap or None), imf_opts=io)
    if b['pc'] == 'raised':
        return None if (isinstance(out, str) and out == 'raise:EMDSiftCovergeError') else 'model: convergence error at layer %d; code: %s' % (L + 1, out if isinstance(out, str) else 'returned %s' % (out.shape,))
    if isinstance(out, str):
        return 'model returns %d columns, code %s' % (L, out)
    if K.overrun or len(K.calls) != L:
        return 'code ran %d extractions, model %d' % (len(K.calls), L)
    if out.ndim != 2 or out.shape != (n, L):
        return 'shape %s, model %d columns' % (out.shape, L)
    r = []
    for k in range(L):
        if removed[k][0] == 'none':
            r.append(np.zeros((n, 1)))
        elif removed[k][0] == 'input':
            r.append(K.inputs[k].reshape(n, 1))
        else:
            r.append(sum((cj / 12.0) * K.mean(k, j + 1) for j, cj in enumerate(removed[k][1])))
    for k in range(L):
        tm = b['imfs'][k]
        want = tm[0] * X[:, None] + sum(tm[j + 1] * r[j] for j in range(min(L, len(tm) - 1)))
        if not np.allclose(out[:, k:k + 1], want, rtol=0, atol=1e-10 * (1 + np.abs(want).max())):
            return 'column %d differs from token map %s (max err %.3g)' % (k, tm, float(np.abs(out[:, k:k + 1] - want).max()))
    return None


def _replay_sift_job(args):
    emd = core.import_emd()
    return [(i, replay_sift_behaviour(emd, b, i)) for i, b in args]


def sift_trace(emd, fn, x, kw, variant='sift'):
    """Run a classic sift under the recorder and derive the SiftTrace events."""
    cap = kw.get('max_imfs') or 0
    thresh = kw.get('sift_thresh', 1e-8)
    ev = [{'e': 'SBegin', 'variant': variant, 'cap': int(cap)}]
    with Recorder(emd, keep_arrays=True) as R:
        out = core.guarded(fn, x, _timeout=120, **kw)
    X2 = np.asarray(x, float).reshape(-1, 1)
    rets = []
    for k, me in enumerate(R.meta):
        if me['raised']:
            break
        if rets:
            imf = np.concatenate(rets, axis=1)
            resid = X2 - imf.sum(axis=1)[:, None]
        else:
            resid = X2.copy()
        ev.append({'e': 'Ext', 'k': k + 1, 'flag': int(me['flag']), 'kind': me['kind'],
                   'small': int(np.abs(me['ret']).sum() < thresh),
                   'input_is_residual': int(me['X'].shape == resid.shape and np.array_equal(me['X'], resid))})
        rets.append(me['ret'])
    if isinstance(out, str):
        ev.append({'e': 'SRaise', 'type': out.split(':', 1)[1]})
        return ev, None
    o = np.asarray(out)
    ok_cols = o.ndim == 2 and o.shape[1] == len(rets) and all(np.array_equal(o[:, k:k + 1], rets[k]) for k in range(len(rets)))
    tot = float(np.abs(X2).max()) + sum(float(np.abs(o[:, k]).max()) for k in range(o.shape[1])) if o.ndim == 2 else 0
    complete = o.ndim == 2 and float(np.abs(o.sum(axis=1) - X2[:, 0]).max()) <= 8 * np.finfo(float).eps * max(1, o.shape[1]) * tot + 1e-300
    nmax, nmin = count_extrema(o[:, -1]) if o.ndim == 2 else (9, 9)
    ev.append({'e': 'Done', 'ncols': int(o.shape[1]) if o.ndim == 2 else -1, 'cols_are_returns': int(ok_cols),
               'finite': int(np.all(np.isfinite(o))), 'complete': int(complete), 'nmax': nmax, 'nmin': nmin, 'ndim': int(o.ndim)})
    return ev, o


def _real_sifts(args):
    seed, count, maxn = args
    emd = core.import_emd()
    rng = np.random.RandomState(seed)
    traces, info = [], []
    for _ in range(count):
        kind = KINDS[rng.randint(len(KINDS))]
        o = imf_opts_for(rng, maxit_choices=(50, 1000))
        if o['stop_method'] == 'fixed':
            o['max_iters'] = int(rng.choice([3, 5, 10]))
        eo = {'interp_method': str(rng.choice(INTERPS))}
        heavy = eo['interp_method'] != 'splrep' and o['stop_method'] != 'fixed'
        n = int(rng.choice([3, 4, 6, 12, 40, 120] + ([] if heavy else [maxn])))
        x = signal(kind, n, rng)
        xo = {'pad_width': int(rng.randint(1, 5))}
        kw = {'imf_opts': o, 'envelope_opts': eo, 'extrema_opts': xo}
        ev, out = sift_trace(emd, emd.sift.sift, x, kw)
        traces.append(ev)
        info.append({'kind': kind, 'n': n, 'imf_opts': {k: (list(v) if isinstance(v, tuple) else v) for k, v in o.items()},
                     'envelope_opts': eo, 'extrema_opts': xo, 'seed': seed, 'ncols': ev[-1].get('ncols')})
    return traces, info


def run_c01():
    ctx = Ctx('C01')
    emd = core.import_emd()
    ML = ctx.pick(4, 5)
    consts = {'MaxLayers': ML, 'Caps': '{0}', 'Outcomes': '{"imf", "resid", "imf_energy", "raise"}', 'Dev': '{}'}
    cfg = os.path.join(ctx.work, 'sf.cfg')
    core.write_cfg(cfg, spec='Spec', invariants=SIFT_INVS, properties=['Terminates'], constants=consts)
    res = core.run_tlc(ctx, 'Sift', cfg, name='Sift outer loop (no cap)', coverage=True)
    core.require_ok(res, 'Leg A Sift')
    core.write_cfg(cfg, spec='Spec', invariants=['Complete'], constants=dict(consts, Outcomes='{"imf", "resid", "lost"}', MaxLayers=3))
    core.expect_violation(ctx, 'Sift', cfg, 'Complete', 'Sift with the mid-sift-extrema-loss deviation (defect fixed in b626704)', workers=4)
    for w in ('W_Natural',):
        core.write_cfg(cfg, spec='Spec', invariants=[w], constants=consts)
        core.expect_violation(ctx, 'Sift', cfg, w, 'Sift ' + w, workers=4)
    core.write_cfg(cfg, spec='Spec', invariants=['Export'], constants=consts)
    res = core.run_tlc(ctx, 'Sift', cfg, name='Sift behaviour export', workers=1)
    core.require_ok(res, 'Sift export')
    behs = parse_behaviours(res['out'])
    ctx.leg('A', invariants=SIFT_INVS + ['Terminates'], behaviours=len(behs))
    import multiprocessing as mp
    idx = list(enumerate(behs))
    jobs = [idx[i:i + 50] for i in range(0, len(idx), 50)]
    nbad = nskip = 0
    with mp.Pool(core.NCPU) as pool:
        for part in pool.imap_unordered(_replay_sift_job, jobs):
            for i, diff in part:
                if diff == 'skip':
                    nskip += 1
                    continue
                ctx.cov['evaluations'] += 1
                if behs[i]['layer'] >= 2:
                    ctx.nontrivial(('B', i))
                if diff:
                    nbad += 1
                    if nbad <= 5:
                        ctx.violation('C01 leg B: real sift does not reproduce TLC behaviour out=%s small=%s: %s' % (behs[i]['out'], behs[i]['small'], diff),
                                      {'leg': 'B', 'behaviour': behs[i], 'index': i, 'difference': diff})
                else:
                    ctx.cov['traces_validated_against_impl'] += 1
        ctx.sample({'leg': 'B', 'behaviour': behs[len(behs) // 3]})
        nreal = ctx.pick(480, 9600)
        parts = pool.map(_real_sifts, [(ctx.seed * 1000 + i, nreal // 16, ctx.pick(300, 1000)) for i in range(16)])
    traces = [t for p in parts for t in p[0]]
    info = [t for p in parts for t in p[1]]
    rej = core.validate_traces(ctx, 'SiftTrace', traces, name='SiftTrace')
    for t, me in zip(traces, info):
        if (me['ncols'] or 0) >= 3:
            ctx.nontrivial(('C', me['kind'], me['n'], me['ncols'], me['imf_opts']['stop_method'], me['envelope_opts']['interp_method'], me['seed']))
    ctx.sample({'leg': 'C', 'config': info[0], 'trace': traces[0][:6] + ['...'] + traces[0][-1:]})
    ctx.leg('B', behaviours_replayed=len(behs) - nskip, not_scriptable=nskip, mismatches=nbad)
    ctx.leg('C', real_sifts=len(traces), rejected=len(rej), max_columns=max((m['ncols'] or 0) for m in info))
    seen = set()
    for ti, l, clauses in rej:
        key = tuple(clauses)
        if key in seen:
            continue
        seen.add(key)
        ctx.violation('C01 leg C: a real sift execution is rejected at event %d %s: %s; config %s' % (
            l, traces[ti][l - 1] if l - 1 < len(traces[ti]) else '<end>', clauses, info[ti]),
            {'leg': 'C', 'config': info[ti], 'event': l, 'clauses': clauses, 'trace_tail': traces[ti][-3:]})
    ctx.cov['rule'] = ('Leg B: every behaviour of Sift.tla for <= %d layers (extraction outcomes imf/resid/energy/raise x small-IMF flags), each replayed '
                       'through the real sift with scripted kernels (inner paths: immediate stop, step-then-stop, extrema lost mid-sift); Leg C: %d real sifts over '
                       '7 signal families x 3 stop rules x 5 step sizes x 3 interpolants x pad 1..4, no cap, no energy threshold; non-trivial = behaviours/sifts with >= 2 resp. 3 columns'
                       % (ML, len(traces)))
    ctx.assumptions += ['termination of the outer loop is an environment assumption of the model (some layer eventually lacks extrema); on real signals it is observed under a watchdog',
                        'complete := max|sum(cols)-x| <= 8 eps ncols (max|x| + sum_k max|col_k|)']
    return ctx.finish()


# ---------------------------------------------------------------------------------------------
# C03: caps and peeling across variants

def _cap_records(args):
    seed, count = args
    emd = core.import_emd()
    rng = np.random.RandomState(seed)
    recs, notes = [], []
    S = emd.sift
    for it in range(count):
        kind = ('noise', 'walk', 'tones', 'amfm', 'plateau')[rng.randint(5)]
        n = int(rng.choice([64, 128, 256]))
        x = signal(kind, n, rng)
        if kind == 'plateau':
            x = (x * 100).astype(np.int64)            # integer-typed recordings (ADC counts) are finite signals too
        o = imf_opts_for(rng, maxit_choices=(1000,))
        if o['stop_method'] == 'fixed':
            o['max_iters'] = int(rng.choice([3, 5]))
        eo = {'interp_method': 'splrep' if rng.rand() < .7 else 'pchip'}
        xo = {'pad_width': int(rng.randint(1, 4))}
        base = {'imf_opts': o, 'envelope_opts': eo, 'extrema_opts': xo}
        cfgd = {'seed': seed, 'it': it, 'sig': kind, 'n': n}
        # ---- classic -------------------------------------------------------------------------
        unc = core.guarded(S.sift, x, _timeout=60, **base)
        if not isinstance(unc, str) and unc.ndim == 2 and unc.shape[1] <= 40:
            nu = unc.shape[1]
            for cap in range(1, nu + 3):
                c = core.guarded(S.sift, x, max_imfs=cap, _timeout=60, **base)
                recs.append(dict(cfgd, **_capped('sift', cap, 0, unc, c, n)))
            for k in range(nu):
                resid = x[:, None] - unc[:, :k].sum(axis=1)[:, None]
                e = core.guarded(S.get_next_imf, resid, envelope_opts=eo, extrema_opts=xo, **o)
                recs.append(dict(cfgd, kind='peel', variant='sift', k=k + 1,
                                 equal=int(not isinstance(e, str) and np.array_equal(e[0][:, 0], unc[:, k]))))
        # ---- masked ---------------------------------------------------------------------------
        mode = ('zc', .2, 'list', 'list')[rng.randint(4)]
        mk = dict(base, mask_amp=float(rng.choice([.5, 1, 2])), mask_amp_mode='ratio_sig', nphases=int(rng.choice([1, 4])))
        listlen = 0
        if mode == 'list':
            listlen = int(rng.choice([3, 6, 8]))
            mk['mask_freqs'] = [.3 / 2 ** i for i in range(listlen)]
        else:
            mk['mask_freqs'] = mode
        # the reference run: mask_sift has no "no cap" (max_imfs defaults to 9), so the reference is a cap far beyond the
        # natural number of components (a 9-component reference was itself capped for long noise signals: false alarm)
        unc = core.guarded(S.mask_sift, x, max_imfs=30, ret_mask_freq=True, _timeout=90, **mk)
        if not isinstance(unc, str) and unc[0].shape[1] < 30:
            unc, freqs = unc
            nu = unc.shape[1]
            for cap in range(1, min(nu, 9) + 3):
                c = core.guarded(S.mask_sift, x, max_imfs=cap, _timeout=60, **mk)
                r = _capped('mask', cap, listlen, unc, c, n)
                recs.append(dict(cfgd, **r))
            amp = mk['mask_amp'] * x[:, None].std()
            for k in range(nu):
                resid = x[:, None] - unc[:, :k].sum(axis=1)[:, None]
                e = core.guarded(S.get_next_imf_mask, resid, freqs[k], amp, nphases=mk['nphases'], imf_opts=o,
                                 envelope_opts=eo, extrema_opts=xo)
                recs.append(dict(cfgd, kind='peel', variant='mask', k=k + 1,
                                 equal=int(not isinstance(e, str) and np.array_equal(e[0][:, 0], unc[:, k]))))
        # ---- ensemble variants (small, seeded, one process) --------------------------------------
        if it % 2 == 0:
            xs = x[:96]
            for variant, fn in (('ensemble', S.ensemble_sift), ('ceemd', S.complete_ensemble_sift)):
                for cap in (0, 1, 2, 3, 5):
                    np.random.seed(seed + cap)
                    c = core.guarded(fn, xs, nensembles=2, nprocesses=1, max_imfs=(cap or None),
                                     noise_mode=('single', 'flip')[cap % 2], _timeout=120, **base)
                    if isinstance(c, str):
                        recs.append(dict(cfgd, kind='capvar', variant=variant, cap=cap, raised=1, ncols=-1, ndim=-1, finite=-1, nrows=-1, n=len(xs)))
                        notes.append('%s(max_imfs=%s) %s' % (variant, cap or None, c))
                    else:
                        a = c[0] if isinstance(c, tuple) else c
                        recs.append(dict(cfgd, kind='capvar', variant=variant, cap=cap, raised=0, ncols=int(a.shape[1]) if a.ndim == 2 else -1,
                                         ndim=int(a.ndim), finite=int(np.all(np.isfinite(a))), nrows=int(a.shape[0]), n=len(xs)))
        # ---- second layer ------------------------------------------------------------------------
        if it % 4 == 0:
            first = core.guarded(S.sift, x, max_imfs=3, **base)
            if not isinstance(first, str) and first.shape[1] >= 2:
                IA = np.abs(first)
                for cap in (0, 1, 2, first.shape[1]):
                    args = dict(base, max_imfs=cap) if cap else None
                    c = core.guarded(S.sift_second_layer, IA, sift_args=args, _timeout=120) if args else 'raise:skipped'
                    recs.append(_second(cfgd, 'second', cap, c, n, IA.shape[1]))
                    margs = {'max_imfs': cap} if cap else None
                    c = core.guarded(S.mask_sift_second_layer, IA, [.2 / 2 ** i for i in range(8)], sift_args=margs, _timeout=120)
                    recs.append(_second(cfgd, 'mask_second', cap, c, n, IA.shape[1]))
    return recs, notes


def _capped(variant, cap, listlen, unc, c, n):
    if isinstance(c, str):
        return {'kind': 'capped', 'variant': variant, 'cap': cap, 'listlen': listlen, 'ncols_unc': int(unc.shape[1]), 'ncols': -99,
                'prefix_equal': 0, 'ndim': -1, 'finite': 0, 'nrows': -1, 'n': n, 'err': c}
    k = c.shape[1] if c.ndim == 2 else -1
    return {'kind': 'capped', 'variant': variant, 'cap': cap, 'listlen': listlen, 'ncols_unc': int(unc.shape[1]), 'ncols': int(k),
            'prefix_equal': int(c.ndim == 2 and k <= unc.shape[1] and np.array_equal(c, unc[:, :k])), 'ndim': int(c.ndim),
            'finite': int(np.all(np.isfinite(c))), 'nrows': int(c.shape[0]), 'n': n}


def _second(cfgd, variant, cap, c, n, nimf1):
    if isinstance(c, str):
        return dict(cfgd, kind='second', variant=variant, cap=cap, raised=1, ndim=-1, shape=[], finite=-1, n=n, nimf1=nimf1)
    return dict(cfgd, kind='second', variant=variant, cap=cap, raised=0, ndim=int(c.ndim), shape=[int(v) for v in c.shape],
                finite=int(np.all(np.isfinite(c))), n=n, nimf1=nimf1)


def run_c03():
    ctx = Ctx('C03')
    emd = core.import_emd()
    ML = ctx.pick(3, 4)
    consts = {'MaxLayers': ML, 'Caps': core.tla_value(set(range(0, ML + 3))), 'Outcomes': '{"imf", "resid", "imf_energy", "raise"}', 'Dev': '{}'}
    cfg = os.path.join(ctx.work, 'sf.cfg')
    core.write_cfg(cfg, spec='Spec', invariants=SIFT_INVS + ['IndInvHolds'], properties=['Terminates', 'RefinesInd'], constants=consts)
    res = core.run_tlc(ctx, 'Sift', cfg, name='Sift outer loop x caps 0..%d' % (ML + 2))
    core.require_ok(res, 'Leg A Sift with caps')
    # every cap, not only 0..ML+2: inductive invariants on the typed skeletons (which the TLC models refine)
    ind = [['--init=Init', '--inv=IndInv', '--length=0'], ['--init=IndInit', '--inv=IndInv', '--length=1']]
    core.apalache(ctx, 'SiftInd', ind, 'SiftInd!IndInv inductive: CapRespected and the column bookkeeping of the classic loop for EVERY cap; Sift refines SiftInd (TLC: RefinesInd)')
    core.apalache(ctx, 'SiftVariantsInd', ind, 'SiftVariantsInd!IndInv inductive: CapRespected, MaskCount, CeemdCount for EVERY natural cap / natural length / list length; '
                  'SiftVariants refines SiftVariantsInd (TLC: RefinesInd)')
    core.write_cfg(cfg, spec='Spec', invariants=['W_Capped'], constants=consts)
    core.expect_violation(ctx, 'Sift', cfg, 'W_Capped', 'Sift W_Capped', workers=4)
    vc = {'MaxNat': 5, 'Caps': '{0, 1, 2, 3, 4, 5, 6, 7}', 'ListLens': '{0, 1, 2, 3, 6, 9}', 'Dev': '{}'}
    core.write_cfg(cfg, spec='Spec', invariants=['CapRespected', 'MaskCount', 'CeemdCount', 'IndInvHolds'], properties=['Terminates', 'RefinesInd'], constants=vc)
    res = core.run_tlc(ctx, 'SiftVariants', cfg, name='SiftVariants caps', workers=4)
    core.require_ok(res, 'Leg A SiftVariants')
    core.write_cfg(cfg, spec='Spec', invariants=['CapRespected'], constants=dict(vc, Dev='{"CEEMD_CapTestBeforeIncrement"}'))
    core.expect_violation(ctx, 'SiftVariants', cfg, 'CapRespected', 'SiftVariants with the CEEMD cap deviation (defect fixed in eb56b8a)', workers=2)
    core.write_cfg(cfg, spec='Spec', invariants=['W_CapBinds'], constants=vc)
    core.expect_violation(ctx, 'SiftVariants', cfg, 'W_CapBinds', 'SiftVariants W_CapBinds', workers=2)
    core.write_cfg(cfg, spec='Spec', invariants=['Export'], constants=consts)
    res = core.run_tlc(ctx, 'Sift', cfg, name='Sift behaviour export (caps)', workers=1)
    core.require_ok(res, 'Sift export')
    behs = parse_behaviours(res['out'])
    ctx.leg('A', invariants=SIFT_INVS + ['SiftVariants!CapRespected', 'MaskCount', 'CeemdCount', 'Terminates'], behaviours=len(behs))
    import multiprocessing as mp
    idx = list(enumerate(behs))
    jobs = [idx[i:i + 60] for i in range(0, len(idx), 60)]
    nbad = nskip = 0
    with mp.Pool(core.NCPU) as pool:
        for part in pool.imap_unordered(_replay_sift_job, jobs):
            for i, diff in part:
                if diff == 'skip':
                    nskip += 1
                    continue
                ctx.cov['evaluations'] += 1
                if behs[i]['cap'] and 'cap' in behs[i]['reasons']:
                    ctx.nontrivial(('B', i))
                if diff:
                    nbad += 1
                    if nbad <= 5:
                        ctx.violation('C03 leg B: real sift(max_imfs=%s) does not reproduce TLC behaviour out=%s small=%s: %s' % (
                            behs[i]['cap'] or None, behs[i]['out'], behs[i]['small'], diff), {'leg': 'B', 'behaviour': behs[i], 'index': i, 'difference': diff})
                else:
                    ctx.cov['traces_validated_against_impl'] += 1
        ctx.sample_first([{'leg': 'B', 'behaviour': b} for b in behs if b['cap'] == 2 and b['layer'] == 2])
    nsig = ctx.pick(64, 640)
    parts = core.pmap(_cap_records, [(ctx.seed * 1000 + i, max(1, nsig // 16)) for i in range(16)])
    recs = [r for p in parts for r in p[0]]
    notes = sorted(set(n for p in parts for n in p[1]))
    for nn in notes[:6]:
        ctx.note('crash on valid input (not a C03 verdict): ' + nn)
    bad = core.validate_records(ctx, 'SiftVariantsRec', recs, name='SiftVariantsRec')
    for r in recs:
        if r['kind'] == 'capped' and r['cap'] < r['ncols_unc']:
            ctx.nontrivial(('C', r['variant'], r['seed'], r['it'], r['cap']))
    ctx.sample_first([r for r in recs if r['kind'] == 'capped' and r['cap'] == 2])
    ctx.sample_first([r for r in recs if r['kind'] == 'capvar'])
    kinds = {}
    for r in recs:
        kinds[r['kind'] + ':' + r['variant']] = kinds.get(r['kind'] + ':' + r['variant'], 0) + 1
    ctx.leg('B', behaviours_replayed=len(behs) - nskip, not_scriptable=nskip, mismatches=nbad)
    ctx.leg('C', records=kinds, crashes_noted=len(notes))
    seen = {}
    for r, clause in bad:
        seen.setdefault((clause, r['variant']), []).append(r)
    for (clause, variant), rs in seen.items():
        ctx.violation('C03: %s violated by %s on %d records; first: %s' % (clause, variant, len(rs), rs[0]), {'clause': clause, 'record': rs[0]})
    ctx.cov['rule'] = ('Leg B: every behaviour of Sift.tla x caps 0..%d replayed through the real sift(max_imfs); Leg C: for each corpus signal the uncapped run and '
                       'caps 1..ncols+2 of sift and mask_sift (zc / float / list ladders; prefix bit-equality), peeling (get_next_imf / get_next_imf_mask on externally '
                       'computed residuals, bit-equality), ensemble_sift / complete_ensemble_sift (seeded, caps 1,2,3,5,None, both noise modes) and both second-layer sifts; '
                       'non-trivial = capped runs whose cap is below the uncapped column count' % (ML + 2))
    return ctx.finish()
