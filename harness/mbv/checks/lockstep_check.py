"""C02: sifting commutes with rescaling, sign flip and time reversal (a 2-safety property).

Leg A : the extrema / padding rule of spec/Extrema.tla is equivariant under reversal, sign flip and
        scaling on every 3-level sequence (TLC, exhaustive) - see also C05.
Leg C : lock-step PRODUCT traces.  get_next_imf and every extraction of the classic sift are run on x
        and on T(x) (T = scale by c in {+-2^k, 3, -0.7, pi}, or time reversal), both recorded event by
        event; the two event streams are zipped and TLC validates each product trace against
        spec/LockstepTrace.tla: run A is a SiftLoop behaviour, run B takes the same decision at every
        step (extrema correspondence, envelope existence, stop decision) and returns T(A's result).
        Pairs whose decision lies within rounding distance of a threshold are excluded (counted).
        Masked sifts (ratio amplitude modes) are compared column by column (spec/LockstepRec.tla).
"""
import os
import re

import numpy as np

from .. import core
from ..core import Ctx, MachineryError
from ..instrument import Recorder, UseInlinePool
from .sift_check import DUMMY, INTERPS, STEPS, imf_opts_for, signal

# (incl. units far from one - 2^-40, 1e-8, -3e-9, 1e7: no absolute tolerance may enter a decision)
SCALES = [2.0 ** k for k in (-8, -3, -1, 1, 2, 5, 8, -40)] + [-1.0, -2.0, -0.25, 3.0, -0.7, float(np.pi), 1e-8, -3e-9, 1e7]


def is_pow2(c):
    m, e = np.frexp(abs(c))
    return m == 0.5


def extrema_counts(p, band):
    v = np.asarray(p, float).ravel()
    d = np.diff(v)
    npk = int(np.sum((d[:-1] > 0) & (d[1:] < 0)))
    ntr = int(np.sum((d[:-1] < 0) & (d[1:] > 0)))
    # within rounding distance but NOT exactly equal: an exact tie is decided identically after reversal / rescaling
    nz = np.abs(d[d != 0])
    near = int(nz.size > 0 and np.min(nz) <= band)
    return npk, ntr, near


def relation(b, want):
    if b.shape != want.shape:
        return 'far'
    if np.array_equal(b, want):
        return 'bit_equal'
    sc = max(float(np.abs(want).max()), 1e-300)
    return 'close' if float(np.abs(b - want).max()) <= 1e-9 * sc else 'far'


def transform(kind, c, a):
    return c * a if kind == 'scale' else a[::-1].copy()


def product(tA, mA, tB, mB, kind, c, band_a, band_b):
    """zip two recorded extractions into one product trace"""
    ev = []
    L = max(len(tA), len(tB))
    need = 'bit' if (kind == 'scale' and is_pow2(c)) else 'close'
    swap = int(kind == 'scale' and c < 0)
    for i in range(L):
        a = tA[i] if i < len(tA) else {'e': 'End'}
        b = tB[i] if i < len(tB) else {'e': 'End'}
        e = {'a': a, 'b': b, 'near': 0, 'swap': swap, 'npk_a': 0, 'ntr_a': 0, 'npk_b': 0, 'ntr_b': 0, 'rel': 'n/a', 'need': need}
        if a['e'] == 'Env' and b['e'] == 'Env' and a['k'] - 1 < len(mA['iterates']) and b['k'] - 1 < len(mB['iterates']):
            pa, ta, na = extrema_counts(mA['iterates'][a['k'] - 1], band_a)
            pb, tb, nb = extrema_counts(mB['iterates'][b['k'] - 1], band_b)
            e.update(npk_a=pa, ntr_a=ta, npk_b=pb, ntr_b=tb, near=int(na or nb))
        if a['e'] == 'Ret' and b['e'] == 'Ret':
            e['rel'] = relation(mB['ret'], transform(kind, c, mA['ret']))
        ev.append(e)
    return ev


def record(emd, fn_name, arr, kw):
    with Recorder(emd, keep_arrays=True, keep_iterates=True) as R:
        core.guarded(getattr(emd.sift, fn_name), arr, _timeout=60, **kw)
    return R.traces, R.meta


def run_pair(emd, fn_name, x, kw, kind, c):
    """Product traces of run A on x and run B on T(x).

    For the classic sift the comparison is made LAYER BY LAYER: run B of layer k is the extraction applied to
    T(input of layer k in run A).  (Feeding run B with its own running residual would compare two computations
    whose inputs differ by amplified rounding errors after a few layers - not what the property is about.)"""
    x = np.asarray(x, float)
    out = []
    tA, mA = record(emd, fn_name, x, kw)
    if fn_name == 'get_next_imf':
        tB, mB = record(emd, fn_name, transform(kind, c, x), kw)
        inputs = [x]
    else:
        gkw = dict(envelope_opts=kw.get('envelope_opts'), extrema_opts=kw.get('extrema_opts'), **(kw.get('imf_opts') or {}))
        tB, mB, inputs = [], [], []
        for k in range(len(tA)):
            Xk = mA[k].get('X')
            if Xk is None:
                break
            t1, m1 = record(emd, 'get_next_imf', transform(kind, c, Xk[:, 0]), gkw)
            tB += t1[:1]
            mB += m1[:1]
            inputs.append(Xk[:, 0])
    n = min(len(tA), len(tB))
    for k in range(n):
        if not (mA[k]['traceable'] and mB[k]['traceable']):
            continue
        xin = inputs[k] if k < len(inputs) else x
        ba = 64 * np.finfo(float).eps * float(np.abs(x).max() + 1e-300)
        bb = ba * (abs(c) if kind == 'scale' else 1.0)
        for m in (mA[k], mB[k]):
            if m.get('ret') is None:
                m['ret'] = np.zeros(1)
        out.append(product(tA[k], mA[k], tB[k], mB[k], kind, c, ba, bb))
    return out


def _job(args):
    seed, count = args
    emd = core.import_emd()
    rng = np.random.RandomState(seed)
    groups, info, mrecs = [], [], []
    for it in range(count):
        kindsig = ('noise', 'walk', 'tones', 'amfm', 'plateau')[rng.randint(5)]
        n = int(rng.choice([16, 40, 100, 200]))
        x = np.asarray(signal(kindsig, n, rng), float)
        x = x / max(1e-12, np.abs(x).max())                       # order-one amplitude
        o = imf_opts_for(rng, maxit_choices=(1000,))
        if o['stop_method'] == 'fixed':
            o['max_iters'] = int(rng.choice([2, 5]))
        eo = {'interp_method': str(rng.choice(INTERPS))}
        xo = {'pad_width': int(rng.randint(1, 5))}
        if rng.rand() < .25:
            xo['parabolic_extrema'] = True
        if rng.rand() < .2:
            # custom np.pad options (equivariant themselves, and different from the default median of one value)
            xo['mag_pad_opts'] = [{'mode': 'mean', 'stat_length': 3}, {'mode': 'reflect'}, {'mode': 'median', 'stat_length': 3}][rng.randint(3)]
        if rng.rand() < .6:
            kind, c = 'scale', float(SCALES[rng.randint(len(SCALES))])
        else:
            kind, c = 'reverse', 1.0
        which = ('get_next_imf', 'sift')[rng.randint(2)]
        if which == 'get_next_imf':
            kw = dict(envelope_opts=eo, extrema_opts=xo, **o)
        else:
            kw = dict(imf_opts=o, envelope_opts=eo, extrema_opts=xo, max_imfs=4)
        prods = run_pair(emd, which, x, kw, kind, c)
        groups.append(prods)
        info.append({'fn': which, 'sig': kindsig, 'n': n, 'opts': {k: (list(v) if isinstance(v, tuple) else v) for k, v in o.items()}, 'envelope_opts': eo,
                     'extrema_opts': xo, 'transform': kind, 'c': c, 'seed': seed, 'it': it})
        if it % 3 == 0:           # masked sift, ratio amplitude modes: scaling law, step by step (jobs run in-process)
            c2 = abs(float(SCALES[rng.randint(len(SCALES))]))      # masks do not change sign with the signal: positive factors
            amp = float(rng.choice([.5, 1, 2])) if rng.rand() < .5 else [float(v) for v in rng.choice([.5, 1, 2], size=3)]
            mk = dict(mask_amp=amp, mask_amp_mode=str(rng.choice(['ratio_sig', 'ratio_imf'])), mask_freqs=float(rng.choice([.1, .2])), max_imfs=3,
                      nphases=int(rng.choice([1, 4])), imf_opts=o, envelope_opts=eo, extrema_opts=xo)
            runs = []
            # (sift_thresh is documented as an ABSOLUTE magnitude below which the sift ends: it is expressed in the same unit)
            for arr, st in ((x, 1e-8), (c2 * x, 1e-8 * c2)):
                with UseInlinePool(emd), Recorder(emd, keep_arrays=True, keep_iterates=True) as R:
                    outm = core.guarded(emd.sift.mask_sift, arr, sift_thresh=st, _timeout=60, **mk)
                runs.append((R.traces, R.meta, outm))
            (tA, mA, a), (tB, mB, b) = runs
            nfirst = mk['nphases']
            upto = min(len(tA), len(tB)) if is_pow2(c2) else min(nfirst, len(tA), len(tB))
            band = 64 * np.finfo(float).eps * float(np.abs(x).max() + 1e-300)
            prods = []
            for k in range(upto):
                if mA[k]['traceable'] and mB[k]['traceable']:
                    for m in (mA[k], mB[k]):
                        if m.get('ret') is None:
                            m['ret'] = np.zeros(1)
                    prods.append(product(tA[k], mA[k], tB[k], mB[k], 'scale', c2, band, band * c2))
            groups.append(prods)
            info.append({'fn': 'mask_sift', 'sig': kindsig, 'n': n, 'opts': {k: (list(v) if isinstance(v, tuple) else v) for k, v in o.items()}, 'envelope_opts': eo,
                         'extrema_opts': xo, 'transform': 'scale', 'c': c2, 'seed': seed, 'it': it, 'mask': {k: v for k, v in mk.items() if k.startswith('mask') or k == 'nphases'}})
            r = {'kind': 'mask', 'need': 'bit' if is_pow2(c2) else 'close', 'c': c2, 'raised': (0 if not (isinstance(a, str) or isinstance(b, str)) else (1 if (isinstance(a, str) and isinstance(b, str) and a == b) else 2)), 'ncols_a': 0, 'ncols_b': 0,
                 'rel': [], 'seed': seed, 'it': it, 'mask_amp_is_array': int(not np.isscalar(amp)), 'mode': mk['mask_amp_mode']}
            if not r['raised']:
                r['ncols_a'], r['ncols_b'] = int(a.shape[1]), int(b.shape[1])
                # output-level relation: all columns for exact (power of two) factors, the first column otherwise
                r['rel'] = [relation(b[:, k], c2 * a[:, k]) for k in range(min(a.shape[1], b.shape[1]))]
            if is_pow2(c2):          # (other factors are judged step by step above, where the guard band can be observed)
                mrecs.append(r)
    return groups, info, mrecs


def run():
    ctx = Ctx('C02')
    cfg = os.path.join(ctx.work, 'ex.cfg')
    invs = ['ReversalEquivariant', 'SignFlipEquivariant', 'ScaleEquivariant']
    L = ctx.pick(6, 8)
    core.write_cfg(cfg, init='Init', next_='Next', invariants=invs, constants={'MaxLen': L, 'Levels': '<- Levels3', 'PadWidths': '{0, 1, 2, 3, 4, 5}'})
    res = core.run_tlc(ctx, 'Extrema', cfg, name='Extrema equivariance L<=%d' % L, timeout=3000)
    core.require_ok(res, 'Leg A Extrema equivariance')
    core.write_cfg(cfg, init='Init', next_='Next', invariants=['SelfTest_DevReversal'], constants={'MaxLen': 6, 'Levels': '<- Levels3', 'PadWidths': '{0, 1, 2, 3, 4, 5}'})
    core.expect_violation(ctx, 'Extrema', cfg, 'SelfTest_DevReversal', 'Extrema asymmetric padding test deviation')
    ctx.leg('A', invariants=invs)
    npairs = ctx.pick(640, 6400)
    parts = core.pmap(_job, [(ctx.seed * 1000 + i, npairs // 32) for i in range(32)], workers=16)
    groups = [g for p in parts for g in p[0]]
    info = [g for p in parts for g in p[1]]
    mrecs = [g for p in parts for g in p[2]]
    traces, owner = [], []
    for gi, g in enumerate(groups):
        for li, t in enumerate(g):
            traces.append(t)
            owner.append((gi, li))
    # validate; TLC reports rejected traces, and which traces ended in the excluded (guard band) state
    rej = core.validate_traces(ctx, 'LockstepTrace', traces, constants=DUMMY, name='LockstepTrace')
    rejected = {ti: (l, cl) for ti, l, cl in rej}
    # a pair excluded at layer k excludes the later layers of the same sift (their inputs have legitimately diverged)
    first_bad = {}
    for ti in sorted(rejected):
        gi, li = owner[ti]
        first_bad.setdefault(gi, (li, ti))
    nviol = 0
    seen = set()
    for gi, (li, ti) in first_bad.items():
        # was an EARLIER layer of this group excluded by the guard band?  (excluded layers are accepted, so look at near flags)
        earlier_near = any(any(e['near'] or e['a'].get('near') or e['b'].get('near') for e in groups[gi][k]) and
                           any(e['a'].get('e') != e['b'].get('e') or e['a'].get('fired') != e['b'].get('fired') or e['a'].get('ok') != e['b'].get('ok') for e in groups[gi][k])
                           for k in range(li))
        if earlier_near:
            continue
        l, cl = rejected[ti]
        key = (tuple(cl), info[gi]['transform'])
        nviol += 1
        if key in seen:
            ctx.violations.append('dup')
            continue
        seen.add(key)
        t = traces[ti]
        ctx.violation('C02: %s on x and on T(x) (%s, c=%s) diverge at layer %d event %d %s: %s; config %s' % (
            info[gi]['fn'], info[gi]['transform'], info[gi]['c'], li + 1, l, {k: t[l - 1][k] for k in ('a', 'b', 'rel', 'need', 'near')} if l - 1 < len(t) else '<end>', cl, info[gi]),
            {'config': info[gi], 'layer': li + 1, 'event': l, 'clauses': cl, 'product_event': t[l - 1] if l - 1 < len(t) else None})
    bad = core.validate_records(ctx, 'LockstepRec', mrecs, name='LockstepRec')
    for r, clause in bad[:1]:
        ctx.violation('C02: %s: %s' % (clause, r), {'clause': clause, 'record': r})
    for r, clause in bad[1:]:
        ctx.violations.append(clause)
    nexc = len(re.findall(r'TRACESUMMARY', '')) 
    for gi, g in enumerate(groups):
        if len(g) >= 1 and any(len(t) > 6 for t in g):
            ctx.nontrivial((info[gi]['seed'], info[gi]['it']))
    ctx.sample_first([{'config': info[0], 'product_trace': groups[0][0][:4] if groups[0] else []}] if info and groups else [])
    ctx.sample_first(mrecs)
    ctx.leg('C', pairs=len(groups), product_traces=len(traces), rejected_traces=len(rej), violating_pairs=nviol, masked_pairs=len(mrecs),
            by_transform={k: sum(1 for i in info if i['transform'] == k) for k in ('scale', 'reverse')})
    ctx.cov['rule'] = ('%d pairs (x, T(x)) of get_next_imf / classic sift runs over 5 signal families x 3 stop rules x 5 step sizes x 3 interpolants x pad 1..4 x parabolic on/off, '
                       'T in {scale by +-2^k (|k|<=8), 3, -0.7, pi; time reversal}, zipped into product traces (one per extraction); plus masked sifts with ratio amplitude modes (scalar '
                       'and per-IMF amplitudes) under scaling; non-trivial = pairs with an extraction of more than one iteration' % len(groups))
    ctx.assumptions += ['guard band: a strict comparison between neighbouring samples within 64 eps max|x| or a stop metric within 1e-9 relative of its threshold; a pair that diverges '
                        'at such a point is excluded from there on (later layers included), never reported',
                        'equivariance of the scipy interpolants themselves is trusted except as observed', "'close' = max abs difference <= 1e-9 x max|T(result)|"]
    return ctx.finish()


def main(arg=None):
    core.main_wrap(run)
