"""C10 / C11: Hilbert-Huang spectrum, marginal spectrum and holospectrum as per-sample histograms.

Leg A : TLC checks conservation / one-bin / marginal / fold-refinement theorems of spec/Spectra.tla
        on an enumerated grid of edge-hitting frequencies.
Leg B/C: the harness enumerates the same grid (count cross-checked with TLC), calls the real
        hilberthuang (dense + sparse), hilberthuang_1d and holospectrum (3 squash modes) and TLC
        validates every record against spec/SpectraDef.tla; random float instances are validated
        with harness-supplied bin indices (exact float comparisons) and fixed-point amplitudes.
"""
import itertools
import os

import numpy as np

from .. import core
from ..core import Ctx, MachineryError

EDGES_A = [(2, 4, 6), (2, 4)]
FGRID_HHT = [-1, 1, 2, 3, 4, 5, 6, 7]
FGRID_HHT_Q = [-1, 2, 3, 4, 6, 7]
FGRID_HOLO = [-1, 2, 3, 4, 6]
MODE = {1: 'amplitude', 2: 'energy'}


def ilist(a):
    a = np.asarray(a)
    r = np.rint(a)
    if not np.all(np.abs(a - r) < 1e-9):
        return None
    return r.astype(int).tolist()


def call(fn, *a, **k):
    return core.guarded(fn, *a, **k)


def layout(a, k):
    """the same values in one of three memory layouts: C-contiguous, Fortran-ordered, a strided view (every second
    element of a larger buffer along the first axis)"""
    a = np.array(a, dtype=float)
    if k % 4 == 3 and a.size and np.all(a == np.rint(a)):
        return a.astype(np.int64)          # integer-valued data stored as integers (grid records): same spectrum
    if a.ndim < 2 or k % 3 == 0:
        return a
    if k % 3 == 1:
        return np.asfortranarray(a)
    buf = np.full((2 * a.shape[0],) + a.shape[1:], -7.0)
    buf[::2] = a
    return buf[::2]


def hht_record(emd, F, A, edges, p, kind='hht', scale=1.0, wide=None):
    lk = int(abs(float(np.sum(F)) * 3 + float(np.sum(A)) + len(edges)))
    Ff = layout(F, lk)
    Af = layout(A, lk + 1)
    e = np.array(edges, dtype=float)
    out = {}
    # the three routines are called on the SAME array objects, in an order that rotates from record to
    # record (a user computes several spectra from one set of arrays): a routine that modifies its
    # inputs shows up as a wrong result of the routine called after it.
    calls = {'d': lambda: call(emd.spectra.hilberthuang, Ff, Af, e, mode=MODE[p]),
             's': lambda: call(emd.spectra.hilberthuang, Ff, Af, e, mode=MODE[p], return_sparse=True),
             'o': lambda: call(emd.spectra.hilberthuang_1d, Ff, Af, e, mode=MODE[p])}
    order = ('dso', 'ods', 'sod')[int(abs(float(Ff.sum()) * 7 + float(Af.sum()))) % 3]
    res = {}
    for c in order:
        res[c] = calls[c]()
    d, s, o = res['d'], res['s'], res['o']
    out['dense'] = [[-99]] if isinstance(d, str) else (ilist(d * scale) or [[-98]])
    out['sparse'] = [[-99]] if isinstance(s, str) else (ilist(s.toarray() * scale) or [[-98]])
    out['oned'] = [[-99]] if isinstance(o, str) else (ilist(o * scale) or [[-98]])
    if wide is not None:
        # ... and afterwards a spectrum over a WIDER frequency range from the very same array objects: samples that were
        # out of range before must be counted now (a routine that marks them in the caller's arrays would lose them)
        e2 = np.array(wide, dtype=float)
        w = {}
        d2 = call(emd.spectra.hilberthuang, Ff, Af, e2, mode=MODE[p])
        o2 = call(emd.spectra.hilberthuang_1d, Ff, Af, e2, mode=MODE[p])
        w['dense'] = [[-99]] if isinstance(d2, str) else (ilist(d2 * scale) or [[-98]])
        w['sparse'] = w['dense']
        w['oned'] = [[-99]] if isinstance(o2, str) else (ilist(o2 * scale) or [[-98]])
        out['_wide'] = w
    return out


def gen_hht(args):
    emd = core.import_emd()
    recs = []
    for (T, M, Fflat, Aflat, edges, p) in args:
        F = [list(Fflat[t * M:(t + 1) * M]) for t in range(T)]
        A = [list(Aflat[t * M:(t + 1) * M]) for t in range(T)]
        r = {'kind': 'hht', 'F': F, 'A': A, 'edges': list(edges), 'p': p}
        ed = list(edges)
        wide = [ed[0] - (ed[1] - ed[0])] + ed + [ed[-1] + (ed[-1] - ed[-2])] if (len(ed) >= 2 and (len(recs) % 4 == 0)) else None
        o = hht_record(emd, F, A, edges, p, wide=wide)
        w = o.pop('_wide', None)
        r.update(o)
        recs.append(r)
        if w is not None:
            recs.append(dict({'kind': 'hht', 'F': F, 'A': A, 'edges': wide, 'p': p, 'after_narrower_call': 1}, **w))
    return recs


def holo_outputs(emd, F1, F2, A2, e1, e2, p, scale=1.0):
    T = len(F1)
    lk = int(abs(float(np.sum(F1)) * 3 + float(np.sum(A2)) + len(e1)))
    a = (layout(F1, lk), layout(F2, lk + 1), layout(A2, lk + 2), np.array(e1, float), np.array(e2, float))
    out = {}
    # same array objects for the three calls, order rotating from record to record (see hht_record)
    calls = {'f': lambda: call(emd.spectra.holospectrum, *a, mode=MODE[p], squash_time=False),
             's': lambda: call(emd.spectra.holospectrum, *a, mode=MODE[p], squash_time='sum'),
             'm': lambda: call(emd.spectra.holospectrum, *a, mode=MODE[p], squash_time='mean')}
    order = ('fsm', 'mfs', 'smf')[int(abs(float(a[0].sum()) * 7 + float(a[2].sum()))) % 3]
    res = {}
    for c in order:
        res[c] = calls[c]()
    full, sm, mn = res['f'], res['s'], res['m']
    out['full'] = [[[-99]]] if isinstance(full, str) else (ilist(np.asarray(full) * scale) or [[[-98]]])
    out['sum'] = [[-99]] if isinstance(sm, str) else (ilist(np.asarray(sm) * scale) or [[-98]])
    out['meanT'] = [[-99]] if isinstance(mn, str) else (ilist(np.asarray(mn) * T * scale) or [[-98]])
    return out


def gen_holo(args):
    emd = core.import_emd()
    recs = []
    for (T, M, K, F1flat, F2flat, A2flat, e1, e2, p) in args:
        F1 = [list(F1flat[t * M:(t + 1) * M]) for t in range(T)]
        F2 = [[list(F2flat[(t * M + m) * K:(t * M + m + 1) * K]) for m in range(M)] for t in range(T)]
        A2 = [[list(A2flat[(t * M + m) * K:(t * M + m + 1) * K]) for m in range(M)] for t in range(T)]
        r = {'kind': 'holo', 'F1': F1, 'F2': F2, 'A2': A2, 'e1': list(e1), 'e2': list(e2), 'p': p}
        r.update(holo_outputs(emd, F1, F2, A2, e1, e2, p))
        recs.append(r)
    return recs


def binof(f, e):
    for b in range(len(e) - 1):
        if e[b] <= f and f < e[b + 1]:
            return b + 1
    return 0


def rand_edges(emd, rng):
    nb = int(rng.choice([1, 2, 3, 5, 8, 16]))
    if rng.rand() < .5:
        lo = float(rng.choice([0., .5, 1.3])); hi = lo + float(rng.choice([1., 7.7, 40.]))
        e, c = emd.spectra.define_hist_bins(lo, hi, nb, 'linear')
    else:
        lo = float(rng.choice([.1, 1., 2.5])); hi = lo * float(rng.choice([2., 10., 123.4]))
        e, c = emd.spectra.define_hist_bins(lo, hi, nb, 'log')
    return e


def rand_freqs(rng, e, shape):
    span = e[-1] - e[0]
    f = e[0] - .2 * span + 1.4 * span * rng.rand(*shape)
    onedge = rng.rand(*shape) < .3
    f[onedge] = rng.choice(e, size=int(onedge.sum()))
    near = rng.rand(*shape) < .1
    f[near] = np.nextafter(rng.choice(e, size=int(near.sum())), rng.choice([-np.inf, np.inf], size=int(near.sum())))
    f[rng.rand(*shape) < .05] *= -1
    return f


def gen_float(args):
    seed, count, pid = args
    emd = core.import_emd()
    rng = np.random.RandomState(seed)
    recs = []
    for _ in range(count):
        p = int(rng.choice([1, 2]))
        sc = 16.0
        if pid == 'C10':
            T, M = int(rng.randint(1, 40)), int(rng.randint(1, 5))
            e = rand_edges(emd, rng)
            f = rand_freqs(rng, e, (T, M))
            k = rng.randint(0, 13, (T, M))
            a = k / 4.0
            B = [[binof(f[t, m], e) for m in range(M)] for t in range(T)]
            P = ((k * k) if p == 2 else 4 * k).tolist()
            r = {'kind': 'hhtf', 'B': B, 'P': P, 'nb': len(e) - 1, 'p': p, 'seed': seed}
            r.update(hht_record(emd, f, a, e, p, scale=sc))
        else:
            T, M, K = int(rng.randint(1, 12)), int(rng.randint(1, 4)), int(rng.randint(1, 4))
            e1 = rand_edges(emd, rng); e2 = rand_edges(emd, rng)
            f1 = rand_freqs(rng, e1, (T, M)); f2 = rand_freqs(rng, e2, (T, M, K))
            k = rng.randint(0, 13, (T, M, K))
            a = k / 4.0
            r = {'kind': 'holof', 'B1': [[binof(f1[t, m], e1) for m in range(M)] for t in range(T)],
                 'B2': [[[binof(f2[t, m, kk], e2) for kk in range(K)] for m in range(M)] for t in range(T)],
                 'P2': ((k * k) if p == 2 else 4 * k).tolist(), 'nb1': len(e1) - 1, 'nb2': len(e2) - 1, 'p': p, 'seed': seed}
            r.update(holo_outputs(emd, f1, f2, a, e1, e2, p, scale=sc))
        recs.append(r)
    return recs


def bins_check(ctx, emd):
    """define_hist_bins: nbins+1 strictly increasing edges spanning the requested range, centres = midpoints."""
    n = 0
    for scale in ('linear', 'log'):
        for nb in (1, 2, 3, 7, 24, 100):
            for lo, hi in ((.1, 1.), (1., 50.), (2.5, 2.6), (1e-3, 1e3)):
                e, c = emd.spectra.define_hist_bins(lo, hi, nb, scale)
                n += 1
                ok = len(e) == nb + 1 and len(c) == nb and np.all(np.diff(e) > 0) and \
                    abs(e[0] - lo) <= 1e-12 * abs(lo) and abs(e[-1] - hi) <= 1e-12 * abs(hi) and \
                    np.allclose(c, (e[:-1] + e[1:]) / 2, rtol=1e-14, atol=0)
                if not ok:
                    # the helper that PROPOSES bin sets is outside the statement of C10 / C11 (which take the edges as given)
                    ctx.extra('define_hist_bins(%r,%r,%r,%r) edges/centres malformed' % (lo, hi, nb, scale))
    return n


def run(pid):
    ctx = Ctx(pid)
    emd = core.import_emd()
    quick = ctx.quick
    P = [1, 2]
    if pid == 'C10':
        shapes = [(1, 1, 0), (1, 2, 0), (2, 1, 0), (2, 2, 0)] + ([] if quick else [(3, 1, 0)])
        fgrid = FGRID_HHT_Q if quick else FGRID_HHT
        avals = [1, 2] if quick else [0, 1, 2]
        consts = {'Shapes': '<- ShapesHHTQuick' if quick else '<- ShapesHHTFull',
                  'FVals': '<- FGridHHTQuick' if quick else '<- FGridHHT', 'AVals': core.tla_value(set(avals)),
                  'EdgeSets': '<- EdgesA', 'PVals': '{1, 2}'}
        invs = ['C10_ColumnConservation', 'C10_MarginalAgrees', 'C10_OneBin']
    else:
        shapes = [(1, 1, 1), (1, 2, 1), (2, 1, 1), (1, 1, 2)] + ([] if quick else [(1, 2, 2), (2, 1, 2)])
        fgrid = FGRID_HOLO
        avals = [1, 2]
        consts = {'Shapes': '<- ShapesHoloQuick' if quick else '<- ShapesHoloFull', 'FVals': '<- FGridHolo',
                  'AVals': '{1, 2}', 'EdgeSets': '<- EdgesA', 'PVals': '{1, 2}'}
        invs = ['C11_FoldRefines', 'C11_Conservation', 'C11_Shape']
    cfg = os.path.join(ctx.work, 'sp.cfg')
    core.write_cfg(cfg, init='Init', next_='Next', invariants=invs, constants=consts)
    res = core.run_tlc(ctx, 'Spectra', cfg, name='Spectra theorems', timeout=3000)
    core.require_ok(res, 'Leg A Spectra')
    nE = len(EDGES_A)
    seeds = sum(len(fgrid) ** (T * M) * (nE if K == 0 else nE * nE) * len(P) for T, M, K in shapes)
    n_model = res['distinct'] - seeds
    # self-tests (vacuity witnesses)
    for w in (['W_SomeOutOfRange'] if pid == 'C10' else ['W_NonSquare']):
        c2 = dict(consts)
        c2['Shapes'] = '<- ShapesHHTQuick' if pid == 'C10' else '<- ShapesHoloQuick'
        if pid == 'C10':
            c2['FVals'] = '<- FGridHHTQuick'; c2['AVals'] = '{1, 2}'
        core.write_cfg(cfg, init='Init', next_='Next', invariants=[w], constants=c2)
        core.expect_violation(ctx, 'Spectra', cfg, w, 'Spectra ' + w)
    # enumerate the same grid through the real code
    items = []
    if pid == 'C10':
        for (T, M, _) in shapes:
            for Ff in itertools.product(fgrid, repeat=T * M):
                for Af in itertools.product(avals, repeat=T * M):
                    for e in EDGES_A:
                        for p in P:
                            items.append((T, M, Ff, Af, e, p))
        gen = gen_hht
    else:
        for (T, M, K) in shapes:
            for F1 in itertools.product(fgrid, repeat=T * M):
                for F2 in itertools.product(fgrid, repeat=T * M * K):
                    for A2 in itertools.product(avals, repeat=T * M * K):
                        for e1 in EDGES_A:
                            for e2 in EDGES_A:
                                for p in P:
                                    items.append((T, M, K, F1, F2, A2, e1, e2, p))
        gen = gen_holo
    if len(items) != n_model:
        raise MachineryError('domain mismatch: harness enumerates %d grid points, the TLC model %d' % (len(items), n_model))
    import multiprocessing as mp
    bad = []
    jobs = [items[i:i + 1000] for i in range(0, len(items), 1000)]
    with mp.Pool(core.NCPU) as pool:
        buf = []
        for recs in pool.imap_unordered(gen, jobs):
            for r in recs:
                tot = r['dense'] if pid == 'C10' else r['sum']
                if isinstance(tot[0][0], int) and sum(map(sum, tot)) > 0 and len(tot) > 1 and all(sum(row) > 0 for row in tot):
                    ctx.nontrivial(len(ctx._nontrivial))   # counted: every bin row received energy
            buf.extend(recs)
            if len(buf) >= 120000:
                bad += core.validate_records(ctx, 'SpectraRec', buf, name='SpectraRec')
                buf = []
        if buf:
            ctx.sample(buf[len(buf) // 2])
            bad += core.validate_records(ctx, 'SpectraRec', buf, name='SpectraRec')
        nf = ctx.pick(320, 3200)
        fl = [r for rs in pool.imap_unordered(gen_float, [(ctx.seed * 1000 + i, nf // 16, pid) for i in range(16)]) for r in rs]
    bad += core.validate_records(ctx, 'SpectraRec', fl, name='SpectraRec-float', chunk=2000)
    nb = bins_check(ctx, emd)
    if pid == 'C10':
        from .extras import histbins_leg
        histbins_leg(ctx)
    ctx.cov['exhaustive'] = True
    ctx.cov['rule'] = ('every frequency/amplitude array of the shapes %s over frequency grid %s (below range incl. negative, on every edge, inside, '
                       'on the last edge, above) x amplitudes %s x edge sets %s x {amplitude, energy}%s; plus %d random float instances with '
                       'linear/log bins and frequencies on / one ulp beside edges; non-trivial = grid points in which every frequency bin receives energy'
                       % (shapes, fgrid, avals, EDGES_A, '' if pid == 'C10' else ' x independent carrier / AM edge sets, 3 squash modes', len(fl)))
    ctx.leg('A', invariants=invs, domain_states=n_model)
    ctx.leg('BC', grid_records=len(items), float_records=len(fl), define_hist_bins_cases=nb)
    seen = {}
    for r, clause in bad:
        seen.setdefault(clause, []).append(r)
    for clause, rs in seen.items():
        r = rs[0]
        ctx.violation('%s: %s disagrees with the per-sample histogram specification on %d records; first: %s' % (
            pid, clause, len(rs), {k: v for k, v in r.items() if k not in ('B', 'P', 'B1', 'B2', 'P2')}),
            {'clause': clause, 'record': r})
    return ctx.finish()


def replay(pid, path):
    import json
    rp = json.load(open(path))['replay']
    r = rp.get('record') or {}
    ctx = Ctx(pid)
    if r.get('kind') == 'hht':
        T, M = len(r['F']), len(r['F'][0])
        recs = gen_hht([(T, M, sum(r['F'], []), sum(r['A'], []), r['edges'], r['p'])])
    elif r.get('kind') == 'holo':
        T, M, K = len(r['F1']), len(r['F1'][0]), len(r['F2'][0][0])
        recs = gen_holo([(T, M, K, sum(r['F1'], []), sum(sum(r['F2'], []), []), sum(sum(r['A2'], []), []), r['e1'], r['e2'], r['p'])])
    elif r.get('kind') in ('hhtf', 'holof'):
        recs = gen_float((r['seed'], 400, pid))
    else:
        print('nothing to replay'); return 2
    bad = core.validate_records(ctx, 'SpectraRec', recs)
    for rr, clause in bad:
        print('REJECTED clause', clause)
        ctx.violation('%s replay: %s' % (pid, clause), rp)
    print('replayed %d records, %d rejected' % (len(recs), len(bad)))
    return ctx.finish()


def main(pid):
    rp = os.environ.get('VERIF_REPLAY')
    core.main_wrap((lambda: replay(pid, rp)) if rp else (lambda: run(pid)))
