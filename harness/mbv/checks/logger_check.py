"""C20: logging never changes results; per-call verbosity overrides are temporary.

Leg A : TLC checks OverrideIsTemporary / RestoredOnExit / HarmlessBeforeSetup / OverrideApplied on
        spec/Logger.tla for all operation histories up to a depth bound, from the never-set-up state.
Leg B : every maximal history exported by TLC is executed for real in a fresh forked process
        (emd imported, logger never set up); after EVERY operation the observed logger state
        must equal the specification's state for that prefix.
Leg C : random longer histories (full level set, all four decorated sift variants, returning and
        raising calls) are executed, observed after every operation and validated by TLC against
        spec/LoggerTrace.tla.
"""
import hashlib
import json
import logging
import os
import signal
import sys

import numpy as np

from .. import core
from ..core import Ctx, MachineryError
from .sift_check import parse_behaviours

NAME = {10: 'DEBUG', 20: 'INFO', 30: 'WARNING', 50: 'CRITICAL'}
VARIANTS = ('sift', 'mask_sift', 'ensemble_sift', 'complete_ensemble_sift')


def observe(emd):
    lg = logging.getLogger('emd')
    hs = lg.handlers
    setup = not (len(hs) == 1 and isinstance(hs[0], logging.NullHandler))
    lvl = emd.logger.get_level()
    return {'setup': int(setup), 'level': int(lvl) if lvl is not None else 0,
            'disabled': int(logging.root.manager.disable >= logging.CRITICAL),
            'hasFile': int(any(isinstance(h, logging.handlers.RotatingFileHandler) for h in hs))}


def do_call(emd, variant, v, out, x):
    """one decorated sift call; returns (exception type name or 'none', digest)"""
    fn = getattr(emd.sift, variant)
    kw = {}
    if v:
        kw['verbose'] = NAME[v]
    if variant in ('ensemble_sift', 'complete_ensemble_sift'):
        kw.update(nensembles=2, nprocesses=1, max_imfs=2)
        np.random.seed(7)
    else:
        kw.update(max_imfs=2)
    # the signal is presented as (n,), (n,1) or (n,1,1) in turn: all accepted layouts, identical results
    arg = (x, x[:, None], x[:, None, None])[(v // 10 + len(variant)) % 3]
    if out == 'raises':
        if variant == 'sift' and (v or 0) % 20 == 10:
            kw['imf_opts'] = {'max_iters': 1, 'sd_thresh': 1e-12}      # documented convergence error inside the call
        else:
            arg = np.zeros((8, 2, 3))                                   # documented input error inside the call
    try:
        r = fn(arg, **kw)
    except Exception as e:
        return type(e).__name__, 'exc'
    a = r[0] if isinstance(r, tuple) else r
    return 'none', hashlib.sha1(np.ascontiguousarray(a).tobytes()).hexdigest()


def run_history(ops, variant_of, workdir, tag):
    """Execute one history in a forked child; returns list of (obs, exc, digest) per operation."""
    core.import_emd()            # import once in this (pristine: logger never set up) process; children fork from it
    r, w = os.pipe()
    pid = os.fork()
    if pid == 0:
        try:
            os.close(r)
            dn = os.open(os.devnull, os.O_WRONLY)
            os.dup2(dn, 1); os.dup2(dn, 2)
            emd = core.import_emd()
            logging.getLogger('emd').setLevel(logging.NOTSET)
            x = np.random.RandomState(3).randn(32)
            res = []
            for i, op in enumerate(ops):
                exc, dig = 'none', ''
                try:
                    if op[0] == 'set_up':
                        kw = {}
                        if op[1]:
                            kw['level'] = NAME[op[1]]
                        if op[2]:
                            kw['log_file'] = os.path.join(workdir, 'log-%s-%d.txt' % (tag, os.getpid()))
                        emd.logger.set_up(**kw)
                    elif op[0] == 'set_level':
                        emd.logger.set_level(NAME[op[1]])
                    elif op[0] == 'disable':
                        emd.logger.disable()
                    elif op[0] == 'enable':
                        emd.logger.enable()
                    elif op[0] == 'call':
                        # watchdog: a call that does not come back is reported as exception 'CallTimeout'
                        # (3 s of the child's own CPU time; 60 s of wall-clock as a fall-back)
                        signal.signal(signal.SIGALRM, core._alarm)
                        signal.signal(signal.SIGPROF, core._alarm)
                        signal.setitimer(signal.ITIMER_PROF, 3)
                        signal.setitimer(signal.ITIMER_REAL, 60)
                        try:
                            exc, dig = do_call(emd, variant_of(i), op[1], op[2], x)
                        finally:
                            signal.setitimer(signal.ITIMER_PROF, 0)
                            signal.setitimer(signal.ITIMER_REAL, 0)
                except Exception as e:
                    exc = 'op:' + type(e).__name__
                res.append((observe(emd), exc, dig))
            os.write(w, json.dumps(res).encode())
        finally:
            os._exit(0)
    os.close(w)
    buf = b''
    while True:
        b = os.read(r, 65536)
        if not b:
            break
        buf += b
    os.close(r)
    os.waitpid(pid, 0)
    return json.loads(buf.decode()) if buf else None


def reference_digests(workdir):
    """digest of each variant's result in a pristine process (logger never touched)"""
    ops = [('call', 0, 'returns')] * len(VARIANTS)
    res = run_history(ops, lambda i: VARIANTS[i], workdir, 'ref')
    return {VARIANTS[i]: res[i][2] for i in range(len(VARIANTS))}


def _replay_job(args):
    paths, states, workdir, ref, base = args
    out = []
    for j, hist in paths:
        vo = lambda i, j=j: VARIANTS[(j + i) % 4] if (j % 5 == 0) else 'sift'
        res = run_history(hist, vo, workdir, 'p%d' % j)
        diff = None
        if res is None:
            diff = 'child process died'
        else:
            for i, (obs, exc, dig) in enumerate(res):
                want = states[json.dumps(hist[:i + 1])]
                want = {k: int(v) for k, v in want.items()}
                if obs != want:
                    diff = 'after op %d %s: observed %s, specification %s' % (i + 1, hist[i], obs, want)
                    break
                if hist[i][0] == 'call':
                    if hist[i][2] == 'returns' and (exc != 'none' or dig != ref[vo(i)]):
                        diff = 'op %d %s (%s): exception=%s result digest %s reference' % (i + 1, hist[i], vo(i), exc, '==' if dig == ref[vo(i)] else '!=')
                        break
                    if hist[i][2] == 'raises' and exc not in ('ValueError', 'EMDSiftCovergeError'):
                        diff = 'op %d %s: the call should raise its documented error, got %s' % (i + 1, hist[i], exc)
                        break
        out.append((j, diff))
    return out


def _random_job(args):
    seed, count, depth, workdir, ref = args
    rng = np.random.RandomState(seed)
    traces = []
    lv = [10, 20, 30, 50]
    for t in range(count):
        ops, variants = [], []
        if rng.rand() < .5:
            ops.append(('set_up', int(rng.choice([0] + lv)), int(rng.rand() < .3)))
        while len(ops) < depth:
            u = rng.rand()
            if u < .12:
                ops.append(('set_up', int(rng.choice([0] + lv)), int(rng.rand() < .3)))
            elif u < .3:
                ops.append(('set_level', int(rng.choice(lv))))
            elif u < .38:
                ops.append(('disable',))
            elif u < .46:
                ops.append(('enable',))
            else:
                ops.append(('call', int(rng.choice([0] + lv)), 'raises' if rng.rand() < .4 else 'returns'))
        vs = [VARIANTS[rng.randint(4)] if rng.rand() < .3 else 'sift' for _ in ops]
        res = run_history(ops, lambda i: vs[i], workdir, 'r%d_%d' % (seed, t))
        ev = []
        for i, op in enumerate(ops):
            obs, exc, dig = res[i] if res else ({'setup': -1, 'level': -1, 'disabled': -1, 'hasFile': -1}, 'died', '')
            e = {'op': op[0], 'lvl': 0, 'file': 0, 'v': 0, 'out': 'none', 'exc': exc, 'digest_ok': 1, 'obs': obs, 'variant': vs[i]}
            if op[0] == 'set_up':
                e['lvl'], e['file'] = op[1], op[2]
            elif op[0] == 'set_level':
                e['lvl'] = op[1]
            elif op[0] == 'call':
                e['v'], e['out'] = op[1], op[2]
                e['digest_ok'] = int(op[2] == 'raises' or dig == ref[vs[i]])
            ev.append(e)
        traces.append(ev)
    return traces


def apalache_induction(ctx):
    """Unbounded histories at the model level: Apalache discharges Init => IndInv and IndInv /\\ Next => IndInv' on LoggerInd.tla
    (Logger.tla refines LoggerInd: TLC property RefinesInd).  Recorded in the evidence; a failure is a machinery error."""
    import shutil
    import subprocess
    import time
    if not shutil.which('apalache-mc'):
        ctx.note('apalache-mc not found: inductive invariant not re-checked in this run')
        return
    out_dir = os.path.join(ctx.work, 'apalache')
    res = []
    for args in (['--init=Init', '--inv=IndInv', '--length=0'], ['--init=IndInit', '--inv=IndInv', '--length=1']):
        t = time.time()
        try:
            p = subprocess.run(['apalache-mc', 'check'] + args + ['--out-dir=' + out_dir, 'LoggerInd.tla'], cwd=core.SPEC,
                               stdout=subprocess.PIPE, stderr=subprocess.STDOUT, text=True, timeout=600)
            ok = 'EXITCODE: OK' in p.stdout
        except subprocess.TimeoutExpired:
            ok = False
        res.append({'args': args, 'ok': ok, 'wall_s': round(time.time() - t, 1)})
        if not ok:
            raise MachineryError('Apalache did not discharge the inductive invariant of LoggerInd (%s)' % args)
    shutil.rmtree(out_dir, ignore_errors=True)
    ctx.leg('apalache', inductive_invariant='LoggerInd!IndInv (implies OverrideIsTemporary for histories of any length)', obligations=res)


def run():
    ctx = Ctx('C20')
    depth = ctx.pick(3, 4)
    invs = ['OverrideIsTemporary', 'HarmlessBeforeSetup', 'OverrideApplied', 'TypeOK']
    cfg = os.path.join(ctx.work, 'lg.cfg')
    consts = {'Levels': '{10, 30}', 'MaxOps': depth, 'Dev': '{}'}
    core.write_cfg(cfg, spec='Spec', invariants=invs, properties=['RestoredOnExit', 'RefinesInd'], constants=consts)
    res = core.run_tlc(ctx, 'Logger', cfg, name='Logger depth %d, 2 levels' % depth, coverage=True)
    core.require_ok(res, 'Leg A Logger')
    cov = core.coverage_counts(res['out'])
    core.write_cfg(cfg, spec='Spec', invariants=invs, properties=['RestoredOnExit'],
                   constants={'Levels': '{10, 20, 30, 50}', 'MaxOps': ctx.pick(2, 3), 'Dev': '{}'})
    core.require_ok(core.run_tlc(ctx, 'Logger', cfg, name='Logger all levels'), 'Leg A Logger (all levels)')
    apalache_induction(ctx)
    for dev, inv in (('{"NoRestoreOnRaise"}', 'OverrideIsTemporary'), ('{"RestoreViaNameOfNone"}', 'HarmlessBeforeSetup')):
        core.write_cfg(cfg, spec='Spec', invariants=[inv], constants={'Levels': '{10, 30}', 'MaxOps': 3, 'Dev': dev})
        core.expect_violation(ctx, 'Logger', cfg, inv, 'Logger Dev=' + dev, workers=4)
    core.write_cfg(cfg, spec='Spec', invariants=['W_RaiseRestores'], constants={'Levels': '{10, 30}', 'MaxOps': 3, 'Dev': '{}'})
    core.expect_violation(ctx, 'Logger', cfg, 'W_RaiseRestores', 'Logger W_RaiseRestores', workers=4)
    core.write_cfg(cfg, spec='Spec', invariants=['Export'], constants=consts)
    res = core.run_tlc(ctx, 'Logger', cfg, name='Logger history export', workers=1)
    core.require_ok(res, 'Logger export')
    behs = parse_behaviours(res['out'])
    states = {json.dumps([list(o) for o in b['hist']]): b['state'] for b in behs}
    for k in list(states):
        states[k] = {kk: int(v) for kk, v in states[k].items()}
    paths = [[list(o) for o in b['hist']] for b in behs if len(b['hist']) == depth]
    # normalise TLC booleans in ops (set_up's file flag) to ints for the replay and the keys
    def normop(o):
        return [int(x) if isinstance(x, bool) else x for x in o]
    states = {json.dumps([normop(o) for o in json.loads(k)]): v for k, v in states.items()}
    paths = [[normop(o) for o in p] for p in paths]
    ref = reference_digests(ctx.work)
    if len(set(ref.values())) < 3 or 'exc' in ref.values():
        raise MachineryError('reference digests not usable: %s' % ref)
    ctx.leg('A', invariants=invs + ['RestoredOnExit'], action_coverage=cov, idle_states=len(behs), maximal_histories=len(paths))
    idx = list(enumerate(paths))
    jobs = [(idx[i:i + 64], core.states_for(states, [h for _, h in idx[i:i + 64]]), ctx.work, ref, 0) for i in range(0, len(idx), 64)]
    nbad = 0
    for part in core.pmap(_replay_job, jobs):
        for j, diff in part:
            ctx.cov['evaluations'] += 1
            if any(o[0] == 'call' and o[1] for o in paths[j]):
                ctx.nontrivial(('B', j))
            if diff:
                nbad += 1
                if nbad <= 5:
                    ctx.violation('C20 leg B: history %s: %s' % (paths[j], diff), {'leg': 'B', 'history': paths[j], 'difference': diff})
            else:
                ctx.cov['traces_validated_against_impl'] += 1
    ctx.sample({'leg': 'B', 'history': paths[len(paths) // 2], 'expected_states': [states[json.dumps(paths[len(paths) // 2][:i + 1])] for i in range(depth)]})
    # Leg C
    nrand = ctx.pick(160, 1600)
    parts = core.pmap(_random_job, [(ctx.seed * 100 + i, nrand // 16, 12, ctx.work, ref) for i in range(16)])
    traces = [t for p in parts for t in p]
    rej = core.validate_traces(ctx, 'LoggerTrace', traces, constants={'Levels': '{10, 20, 30, 50}', 'MaxOps': 1000, 'Dev': '{}'}, name='LoggerTrace')
    for t in traces:
        ctx.nontrivial(('C', json.dumps([[e['op'], e['lvl'], e['v'], e['out']] for e in t])))
    ctx.sample({'leg': 'C', 'trace': traces[0][:5]})
    ctx.leg('B', histories_replayed=len(paths), mismatches=nbad)
    ctx.leg('C', random_histories=len(traces), depth=12, rejected=len(rej))
    seen = set()
    for ti, l, clauses in rej:
        key = tuple(clauses)
        if key in seen:
            continue
        seen.add(key)
        t = traces[ti]
        ctx.violation('C20 leg C: real history rejected at op %d %s: %s; history so far %s' % (
            l, {k: t[l - 1][k] for k in ('op', 'lvl', 'file', 'v', 'out', 'exc', 'digest_ok', 'obs', 'variant')} if l - 1 < len(t) else '<end>', clauses,
            [[e['op'], e['lvl'] or e['v'], e['out']] for e in t[:l]]), {'leg': 'C', 'trace': t[:l], 'clauses': clauses})
    ctx.cov['exhaustive'] = True
    ctx.cov['rule'] = ('Leg B: ALL histories of exactly %d operations over {set_up(level in {None,DEBUG,WARNING}, file on/off), set_level, disable, enable, '
                       'decorated call (verbose in {None,DEBUG,WARNING}) that returns / raises} from the never-set-up state, each executed in a fresh process '
                       'with the state compared after every operation (every 5th history rotates through all four sift variants); Leg C: random histories of '
                       'depth 12 over all four levels and variants; non-trivial = histories containing a call with an override' % depth)
    ctx.assumptions += ['observed state = (emd logger has non-Null handlers, get_level(), logging.root.manager.disable, RotatingFileHandler present)',
                        'result digests are compared with the digest of the same call in a pristine process (ensemble variants seeded)']
    return ctx.finish()


def main(arg=None):
    core.main_wrap(run)
