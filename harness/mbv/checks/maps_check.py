"""C16: sample / cycle / subset / chain index maps and projections.

Leg A : TLC checks totality, round trips, "None exactly for unlabelled/unselected", maximal-run
        chains and the projection theorems of spec/CycleMaps.tla on every enumerated structure.
Leg B/C: the harness enumerates the same structures, calls all eighteen real functions on every
        valid index and TLC validates each record against spec/CycleMapsDef.tla.
"""
import itertools
import os

import numpy as np

from .. import core
from ..core import Ctx, MachineryError


def structures(K, KFull, LMax, NMax):
    out = []
    if K <= KFull:
        for lens in itertools.product(range(1, LMax + 1), repeat=K):
            for gaps in itertools.product((0, 1), repeat=K + 1):
                if sum(lens) + sum(gaps) <= NMax:
                    out.append((lens, gaps))
    else:
        pats = {tuple([0] * (K + 1)), tuple([1] + [0] * K), tuple([0] * K + [2]),
                tuple(1 if i == 3 else 0 for i in range(K + 1))}
        out = [((1,) * K, g) for g in sorted(pats)]
    return out


def build(lens, gaps):
    cv = []
    for c, l in enumerate(lens):
        cv += [-1] * gaps[c] + [c] * l
    cv += [-1] * gaps[len(lens)]
    return cv


def norm(v):
    """a scalar-valued map: None -> -1, an exception -> -99, anything that is not one integer -> -98"""
    if v is None:
        return -1
    if isinstance(v, str):
        return -99
    a = np.asarray(v)
    if a.size != 1:
        return -98
    return int(a.ravel()[0])


def norms(v):
    """a set-valued map: sorted list of ints; None -> [-1], an exception -> [-99]  (always a list: TLC compares like with like)"""
    if v is None:
        return [-1]
    if isinstance(v, str):
        return [-99]
    return sorted(int(x) for x in np.asarray(v).ravel())


def proj(v):
    if isinstance(v, str):
        return [-99]
    return [(-1 if np.isnan(x) else int(round(x))) for x in np.asarray(v, dtype=float).ravel()]


def call(fn, *a, **k):
    return core.guarded(fn, *a, **k)


def record(cs, emd, cvl, sel, vectors=None):
    """vectors: (subset_vect, chain_vect) taken from a live Cycles container instead of being recomputed"""
    cv = np.array(cvl, dtype=int)
    K = len(sel)
    N = len(cv)
    if vectors is not None:
        sv, chv = vectors
    else:
        # the selection is a truth vector whatever carries it: bool, 0/1 integers or 0./1. floats (e.g. a column of
        # get_matching_cycles(..., ret_separate=True)) in turn
        carrier = (bool, np.int64, float)[(len(cvl) + sum(sel) + len(sel)) % 3]
        sv = call(emd.cycles.get_subset_vector, np.array(sel).astype(carrier))
        chv = call(emd.cycles.get_chain_vector, sv) if not isinstance(sv, str) else 'raise'
    r = {'cv': cvl, 'sel': [int(x) for x in sel]}
    if isinstance(sv, str) or isinstance(chv, str):
        r.update(subset_vect=[-99], chain_vect=[-99])
        sv = np.array([-1] * K)
        chv = np.array([], dtype=int)
    elif not (np.issubdtype(np.asarray(sv).dtype, np.integer) and np.issubdtype(np.asarray(chv).dtype, np.integer)):
        r.update(subset_vect=[-98], chain_vect=[-98])          # index vectors must hold integers (they are used as indices)
    else:
        r['subset_vect'] = [int(x) for x in sv]
        r['chain_vect'] = [int(x) for x in chv]
    S = int((np.asarray(sv) > -1).sum())
    H = int(chv.max()) + 1 if len(chv) else 0
    r['s2c'] = [norm(call(cs.map_sample_to_cycle, cv, s)) for s in range(N)]
    r['c2s'] = [norms(call(cs.map_cycle_to_samples, cv, c)) for c in range(K)]
    r['c2sub'] = [norm(call(cs.map_cycle_to_subset, sv, c)) for c in range(K)]
    r['sub2c'] = [norms(call(cs.map_subset_to_cycle, sv, j)) for j in range(S)]
    r['sub2s'] = [norms(call(cs.map_subset_to_sample, sv, cv, j)) for j in range(S)]
    r['s2sub'] = [norm(call(cs.map_sample_to_subset, sv, cv, s)) for s in range(N)]
    r['sub2ch'] = [norm(call(cs.map_subset_to_chain, chv, j)) for j in range(S)]
    r['ch2sub'] = [norms(call(cs.map_chain_to_subset, chv, h)) for h in range(H)]
    r['c2ch'] = [norm(call(cs.map_cycle_to_chain, chv, sv, c)) for c in range(K)]
    r['ch2c'] = [norms(call(cs.map_chain_to_cycle, chv, sv, h)) for h in range(H)]
    r['ch2s'] = [norms(call(cs.map_chain_to_samples, chv, sv, cv, h)) for h in range(H)]
    r['s2ch'] = [norm(call(cs.map_sample_to_chain, chv, sv, cv, s)) for s in range(N)]
    cvals = np.arange(K) + 1000.
    svals = np.arange(S) + 10.
    hvals = np.arange(H) + 100.
    r['pc2s'] = proj(call(cs.project_cycles_to_samples, cvals, cv))
    r['psub2c'] = proj(call(cs.project_subset_to_cycles, svals, sv))
    r['psub2s'] = proj(call(cs.project_subset_to_samples, svals, sv, cv))
    r['pch2sub'] = proj(call(cs.project_chain_to_subset, hvals, chv))
    r['pch2c'] = proj(call(cs.project_chain_to_cycles, hvals, chv, sv))
    r['pch2s'] = proj(call(cs.project_chain_to_samples, hvals, chv, sv, cv))
    return r


def gen(args):
    emd = core.import_emd()
    from emd import _cycles_support as cs
    out = []
    for cvl, sel in args:
        out.append(record(cs, emd, cvl, sel))
    return out


def gen_container(args):
    """Selection histories on live Cycles containers: after every pick_cycle_subset the container's own subset / chain vectors
    must be the ones the specification derives from the set of matching cycles (a stale vector breaks every map built on it)."""
    seed, count = args
    emd = core.import_emd()
    from emd import _cycles_support as cs
    from .container_check import PHASE
    from .cycles_check import table
    rng = np.random.RandomState(seed)
    val, edge = table(1)
    out = []
    conds = [('duration', '>', 3), ('duration', '<', 4), ('start_sample', '>', 5), ('duration', '>', 100), ('start_sample', '<', 9), ('is_good', '==', 1)]
    for _ in range(count):
        fam = int(rng.randint(1, 4))
        try:
            C = emd.cycles.Cycles(val[PHASE[fam]], use_cache=bool(rng.randint(2)))
            C.compute_cycle_timings()
        except Exception as e:
            # the container cannot even be built on a valid phase: recorded as a record whose vectors are wrong
            r = record(cs, emd, [0, 0, 1, 1], [1, 1])
            r.update(subset_vect=[-99], chain_vect=[-99], container={'family': fam, 'step': -1, 'cond': 'construction raised %s: %s' % (type(e).__name__, e)})
            out.append(r)
            continue
        for step in range(3):
            name, op, lit = conds[rng.randint(len(conds))]
            try:
                C.pick_cycle_subset(['%s%s%d' % (name, op, lit)])
            except Exception as e:
                pass          # the maps are still required to be coherent with whatever state the container is left in
            m = np.asarray(C.metrics[name], float)
            sel = {'>': m > lit, '<': m < lit, '==': m == lit}[op]
            if C.subset_vect is None or C.chain_vect is None:
                continue
            cvl = [int(v) for v in C.cycle_vect[:, 0]] if C.cycle_vect.ndim == 2 else [int(v) for v in C.cycle_vect]
            try:
                r = record(cs, emd, cvl, [int(b) for b in sel], vectors=(np.asarray(C.subset_vect), np.asarray(C.chain_vect)))
            except Exception as e:
                # a map could not even be evaluated on the container's own vectors: recorded as a record whose vectors are wrong
                r = record(cs, emd, cvl, [int(b) for b in sel])
                r.update(subset_vect=[-99], chain_vect=[-99], harness_note='%s: %s' % (type(e).__name__, e))
            r['container'] = {'family': fam, 'step': step, 'cond': '%s%s%d' % (name, op, lit)}
            out.append(r)
    return out


def gen_random(args):
    seed, count = args
    emd = core.import_emd()
    from emd import _cycles_support as cs
    rng = np.random.RandomState(seed)
    out = []
    for _ in range(count):
        K = int(rng.randint(20, 120))
        lens = rng.randint(1, 6, K)
        gaps = (rng.rand(K + 1) < .3) * rng.randint(1, 4, K + 1)
        sel = (rng.rand(K) < rng.choice([.2, .5, .8])).astype(int)
        out.append(record(cs, emd, build(lens, gaps), list(sel)))
    return out


def _iter_replay(args):
    emd = core.import_emd()
    out = []
    for i, b in args:
        cv = np.array(b['cv'], dtype=int)
        sel = np.array(b['sel'], dtype=bool)
        sv = emd.cycles.get_subset_vector(sel)
        chv = emd.cycles.get_chain_vector(sv)

        def loop():
            it = emd.cycles.IterateCycles(iter_through=b['through'], mode='cycle', cycle_vect=cv, subset_vect=sv, chain_vect=chv)
            return [[int(k), sorted(int(v) for v in inds)] for k, inds in it]
        got = core.guarded(loop)
        want = [[int(o[0]), [int(v) for v in o[1]]] for o in b['out']] if b['pc'] == 'done' else 'raise:ValueError'
        out.append((i, None if got == want else 'IterateCycles(%s) over cv=%s sel=%s yields %s, specification %s' % (b['through'], b['cv'], b['sel'], got, want)))
    return out


def iterator_leg(ctx):
    """Specification growth beyond C16 (the IterateCycles iterator protocol, spec/CycleIter.tla): model-checked, every
    finished loop replayed through the real iterator; a disagreement is reported but is NOT a verdict on C16."""
    from .sift_check import parse_behaviours
    cfg = os.path.join(ctx.work, 'ci.cfg')
    consts = {'KMaxI': ctx.pick(3, 4), 'LMaxI': 2}
    invs = ['InOrder', 'Disjoint', 'Covers', 'ChainsAreRuns']
    core.write_cfg(cfg, spec='Spec', invariants=invs, properties=['Terminates'], constants=consts)
    core.require_ok(core.run_tlc(ctx, 'CycleIter', cfg, name='CycleIter iterator protocol'), 'CycleIter')
    core.write_cfg(cfg, spec='Spec', invariants=['W_TwoChains'], constants=consts)
    core.expect_violation(ctx, 'CycleIter', cfg, 'W_TwoChains', 'CycleIter W_TwoChains', workers=2)
    core.write_cfg(cfg, spec='Spec', invariants=['Export'], constants=consts)
    res = core.run_tlc(ctx, 'CycleIter', cfg, name='CycleIter export', workers=1)
    core.require_ok(res, 'CycleIter export')
    behs = parse_behaviours(res['out'])
    idx = list(enumerate(behs))
    nbad = 0
    for part in core.pmap(_iter_replay, [idx[i::16] for i in range(16)]):
        for i, diff in part:
            if diff:
                nbad += 1
                if nbad <= 3:
                    ctx.extra(diff)
    ctx.leg('iterator (beyond C16, not a verdict)', invariants=invs + ['Terminates'], loops_replayed=len(behs), mismatches=nbad)


def run():
    ctx = Ctx('C16')
    iterator_leg(ctx)
    KFull, LMax, NMax, KMax = ctx.pick((4, 3, 7, 10), (5, 3, 8, 12))
    consts = {'KFull': KFull, 'LMax': LMax, 'NMax': NMax, 'KMax': KMax}
    invs = ['Total', 'RoundTrips', 'NoneExactly', 'ChainsAreMaximalRuns', 'Projections']
    cfg = os.path.join(ctx.work, 'cm.cfg')
    core.write_cfg(cfg, init='Init', next_='Next', invariants=invs, constants=consts)
    res = core.run_tlc(ctx, 'CycleMaps', cfg, name='CycleMaps theorems', timeout=3000)
    core.require_ok(res, 'Leg A CycleMaps')
    nseeds = sum(2 ** k for k in range(1, KMax + 1))
    n_model = res['distinct'] - nseeds
    for w in ['W_SingleCycleChain', 'W_EmptySelection', 'W_GapInsideChain']:
        core.write_cfg(cfg, init='Init', next_='Next', invariants=[w], constants={'KFull': 3, 'LMax': 2, 'NMax': 6, 'KMax': 4})
        core.expect_violation(ctx, 'CycleMaps', cfg, w, 'CycleMaps ' + w, workers=4)
    # the same domain through the real code
    items = []
    for K in range(1, KMax + 1):
        st = [build(l, g) for l, g in structures(K, KFull, LMax, NMax)]
        st = [list(x) for x in sorted(set(tuple(s) for s in st))]
        for cvl in st:
            for sel in itertools.product((0, 1), repeat=K):
                items.append((cvl, sel))
    if len(items) != n_model:
        raise MachineryError('domain mismatch: harness enumerates %d structures, the TLC model %d' % (len(items), n_model))
    import multiprocessing as mp
    jobs = [items[i:i + 400] for i in range(0, len(items), 400)]
    bad = []
    with mp.Pool(core.NCPU) as pool:
        buf = []
        for recs in pool.imap_unordered(gen, jobs):
            for r in recs:
                if len(r['chain_vect']) and max(r['chain_vect']) >= 1:
                    ctx.nontrivial((tuple(r['cv']), tuple(r['sel'])))
            buf.extend(recs)
            if len(buf) >= 30000:
                bad += core.validate_records(ctx, 'CycleMapsRec', buf, name='CycleMapsRec', chunk=30000)
                buf = []
        if buf:
            bad += core.validate_records(ctx, 'CycleMapsRec', buf, name='CycleMapsRec', chunk=30000)
        nr = ctx.pick(32, 320)
        rr = [r for rs in pool.imap_unordered(gen_random, [(ctx.seed * 100 + i, nr // 16) for i in range(16)]) for r in rs]
    bad += core.validate_records(ctx, 'CycleMapsRec', rr, name='CycleMapsRec-random', chunk=40)
    import multiprocessing as mp2
    with mp2.Pool(core.NCPU) as pool2:
        cr = [r for rs in pool2.imap_unordered(gen_container, [(ctx.seed * 100 + i, ctx.pick(20, 200)) for i in range(16)]) for r in rs]
    bad += core.validate_records(ctx, 'CycleMapsRec', cr, name='CycleMapsRec-container')
    ctx.leg('container', selection_histories=len(cr) // 3, records=len(cr))
    ex = [r for r in gen([([-1, 0, 0, 1, -1, 2, 3], (1, 1, 0, 1))])]
    ctx.sample({k: ex[0][k] for k in ('cv', 'sel', 'subset_vect', 'chain_vect', 's2ch', 'ch2c', 'pch2s')})
    ctx.cov['exhaustive'] = True
    ctx.cov['rule'] = ('every boolean selection of K<=%d cycles x (K<=%d: every composition of cycle lengths 1..%d and unlabelled gaps 0..1 '
                       'with <=%d samples; larger K: unit cycles with 4 gap patterns), all 18 map_*/project_* functions on every valid index; '
                       'plus random instances with 20..120 cycles; non-trivial = distinct structures with >= 2 chains' % (KMax, KFull, LMax, NMax))
    ctx.leg('A', invariants=invs, domain_states=n_model)
    ctx.leg('BC', structures=len(items), random_instances=len(rr))
    seen = {}
    for r, clause in bad:
        seen.setdefault(clause, []).append(r)
    for clause, rs in seen.items():
        r = min(rs, key=lambda x: len(x['cv']) + len(x['sel']))
        ctx.violation('C16: %s disagrees with the specification on %d structures; smallest: cv=%s sel=%s' % (clause, len(rs), r['cv'], r['sel']),
                      {'cv': r['cv'], 'sel': r['sel'], 'clause': clause, 'record': r if len(r['cv']) < 40 else None})
    return ctx.finish()


def replay(path):
    import json
    rp = json.load(open(path))['replay']
    ctx = Ctx('C16')
    recs = gen([(rp['cv'], tuple(rp['sel']))])
    bad = core.validate_records(ctx, 'CycleMapsRec', recs)
    for r, clause in bad:
        print('REJECTED clause', clause, 'record', r)
        ctx.violation('C16 replay: %s' % clause, rp)
    print('replayed 1 structure, %d clauses rejected' % len(bad))
    return ctx.finish()


def main(arg=None):
    rp = os.environ.get('VERIF_REPLAY')
    core.main_wrap((lambda: replay(rp)) if rp else run)
