"""The repository's own tests as drivers (C04): the test-suite is run with the get_next_imf recorder switched on
(harness/mbv/pytest_trace.py) and every extraction it performs - in the classic, masked, ensemble, complete-ensemble and
second-layer sifts, through worker pools replaced by an in-process pool - is validated by TLC against SiftLoopTrace.
The tests' own assertions only look at shapes; their executions are checked here step by step."""
import json
import os
import subprocess

from .. import core
from ..core import MachineryError


def repo_tests_leg(ctx, constants):
    out = os.path.join(ctx.work, 'repo-test-traces.json')
    tests = os.path.join(core.REPO, 'emd', 'tests')
    # (TMPDIR: the repository's logger test writes temporary log files - they belong in the per-run work directory)
    env = dict(os.environ, EMD_TRACE_OUT=out, TMPDIR=ctx.work, PYTHONPATH=core.VERIF + os.pathsep + os.environ.get('PYTHONPATH', ''))
    p = subprocess.run(['/venv/bin/python', '-m', 'pytest', '-q', '-p', 'no:cacheprovider', '-p', 'harness.mbv.pytest_trace', tests],
                       cwd=ctx.work, env=env, stdout=subprocess.PIPE, stderr=subprocess.STDOUT, text=True, timeout=1800)
    if not os.path.exists(out):
        raise MachineryError('the repository tests did not run under the recorder:\n' + p.stdout[-2000:])
    d = json.load(open(out))
    traces = d['traces']
    if p.returncode != 0:
        ctx.note('the repository test-suite itself reports failures under the recorder (not a verdict): ' + p.stdout.strip().splitlines()[-1])
    if len(traces) < 20:
        raise MachineryError('only %d extractions recorded from the repository tests' % len(traces))
    rej = core.validate_traces(ctx, 'SiftLoopTrace', traces, constants=constants, name='SiftLoopTrace (repository tests as drivers)')
    seen = set()
    for ti, l, clauses in rej:
        key = tuple(clauses)
        if key in seen:
            continue
        seen.add(key)
        ctx.violation('C04: an extraction performed by the repository\'s own tests is not a behaviour of SiftLoop: event %d %s fails %s' % (
            l, traces[ti][l - 1] if l - 1 < len(traces[ti]) else '<end>', clauses),
            {'leg': 'repo-tests', 'trace': traces[ti], 'event': l, 'clauses': clauses})
    ctx.leg('repo-tests', extractions_recorded=len(traces), events=sum(len(t) for t in traces), rejected=len(rej))
