"""The extrema-padding loop (spec/PadLoop.tla) - a leg shared by C04 (extraction never loops) and C05 (padded
extrema stretch beyond both ends, keep the detected ones, are ordered).

Leg A : TLC checks Progress (a variant: every round widens the span), Terminates (liveness under weak fairness),
        RoundsBounded, Covered, InteriorKept, OddIsOrdered, OddNeverFails, ErrorMeansStuck for every signal length,
        every admissible set of peak locations, pad widths and FIVE np.pad modes for the locations; the
        specification without the no-progress guard must violate Progress (self-test, finding D22).
Leg B : every terminal state TLC reaches is replayed: the real get_padded_extrema on a signal with exactly those
        peaks and loc_pad_opts for that mode must return the model's padded locations, or raise ValueError where
        the model ends in "error" - within the watchdog interval.  A sample is also pushed through get_next_imf.
"""
import os

import numpy as np

from .. import core
from ..core import MachineryError
from .sift_check import parse_behaviours

OPTS = {'odd': {'mode': 'reflect', 'reflect_type': 'odd'}, 'even': {'mode': 'reflect', 'reflect_type': 'even'},
        'symmetric': {'mode': 'symmetric'}, 'edge': {'mode': 'edge'}, 'wrap': {'mode': 'wrap'}}
INVS = ['RoundsBounded', 'Covered', 'InteriorKept', 'OddIsOrdered', 'OddNeverFails', 'ErrorMeansStuck']
PROPS = ['Progress', 'Terminates']


def _replay(args):
    emd = core.import_emd()
    out = []
    for i, b in args:
        n, l0, w, typ = b['n'], list(b['l0']), b['w'], b['typ']
        x = np.zeros(n)
        x[l0] = 1.0
        r = core.guarded(emd.sift.get_padded_extrema, x, pad_width=w, mode='peaks', loc_pad_opts=dict(OPTS[typ]), _timeout=5)
        if isinstance(r, str):
            got = r
        elif r[0] is None:
            got = 'None'
        else:
            got = [int(v) for v in r[0]]
        want = list(b['l']) if b['pc'] == 'done' else 'raise:ValueError'
        diff = None
        if got != want:
            diff = 'get_padded_extrema(peaks at %s of %d samples, pad_width=%d, loc_pad_opts=%s): real %s, specification %s' % (
                l0, n, w, OPTS[typ], 'does not return within 5 s' if got == 'raise:Timeout' else got, want)
        elif i % 7 == 0:
            # the whole extraction ends as well (returns, or raises) when built on this padding
            xs = np.tile(x, 3) - .5
            r2 = core.guarded(emd.sift.get_next_imf, xs[:, None], extrema_opts={'loc_pad_opts': dict(OPTS[typ]), 'pad_width': w}, _timeout=10)
            if isinstance(r2, str) and r2 == 'raise:Timeout':
                diff = 'get_next_imf with loc_pad_opts=%s does not return within 10 s' % OPTS[typ]
        out.append((i, diff))
    return out


def padloop_leg(ctx, pid):
    cfg = os.path.join(ctx.work, 'pl.cfg')
    consts = {'MaxN': ctx.pick(9, 12), 'PadMax': 3, 'Types': '{"odd", "even", "symmetric", "edge", "wrap"}', 'Guard': 'TRUE'}
    core.write_cfg(cfg, spec='Spec', invariants=INVS, properties=PROPS, constants=consts)
    res = core.run_tlc(ctx, 'PadLoop', cfg, name='PadLoop safety+liveness')
    core.require_ok(res, 'Leg A PadLoop')
    core.write_cfg(cfg, spec='Spec', properties=['Progress'], constraint='StateBound', constants=dict(consts, MaxN=6, Guard='FALSE'))
    core.expect_violation(ctx, 'PadLoop', cfg, 'Progress', 'PadLoop without the no-progress guard', workers=2)
    for wname in ('W_SecondRound', 'W_Error'):
        core.write_cfg(cfg, spec='Spec', invariants=[wname], constants=consts)
        core.expect_violation(ctx, 'PadLoop', cfg, wname, 'PadLoop ' + wname, workers=2)
    core.write_cfg(cfg, spec='Spec', invariants=['Export'], constants=consts)
    res = core.run_tlc(ctx, 'PadLoop', cfg, name='PadLoop behaviour export', workers=1)
    core.require_ok(res, 'PadLoop export')
    behs = parse_behaviours(res['out'])
    if len(behs) < 200:
        raise MachineryError('PadLoop export produced only %d terminal states' % len(behs))
    idx = list(enumerate(behs))
    nbad = 0
    for part in core.pmap(_replay, [idx[i::16] for i in range(16)]):
        for i, diff in part:
            ctx.cov['evaluations'] += 1
            b = behs[i]
            if b['rounds'] >= 1:
                ctx.nontrivial(('pad', b['typ'], b['n'], b['w'], tuple(b['l0'])))
            if diff:
                nbad += 1
                if nbad <= 3:
                    ctx.violation('%s padding loop: %s' % (pid, diff), {'leg': 'padloop', 'behaviour': b, 'difference': diff,
                                                                    'class': 'pad_loop_' + ('hang' if 'does not return' in diff else 'mismatch')})
            else:
                ctx.cov['traces_validated_against_impl'] += 1
    ctx.leg('padloop', invariants=INVS, properties=PROPS, terminal_states_replayed=len(behs), mismatches=nbad,
            ending_in_error=sum(1 for b in behs if b['pc'] == 'error'), with_repeated_rounds=sum(1 for b in behs if b['pc'] == 'done' and b['rounds'] >= 1))
