"""C05: extrema detection, padding and envelope interpolation.

Leg A : TLC checks exactness, padding-shape, coverage and equivariance theorems of spec/Extrema.tla
        on EVERY sequence of length 3..L over a 3-level alphabet x pad widths 0..5 x 3 modes x
        parabolic on/off.
Leg B/C: the harness enumerates the same domain, calls the real get_padded_extrema and
        interp_envelope(ret_extrema=True) for the 3 interpolation methods and TLC validates every
        record against spec/ExtremaDef.tla (locations in 1/24 sample, magnitudes in 1/96 unit, exact).
"""
import itertools
import os

import numpy as np
from scipy import interpolate as interp

from .. import core
from ..core import Ctx, MachineryError

LEVELS = (-1, 0, 1)
LS, MS = 24, 96
MODES = ('peaks', 'troughs', 'abs_peaks')
EMODES = {'upper': 'peaks', 'lower': 'troughs', 'combined': 'abs_peaks'}
METHODS = ('splrep', 'pchip', 'mono_pchip')


def fx(a, scale):
    a = np.asarray(a, dtype=float) * scale
    r = np.rint(a)
    if not np.all(np.abs(a - r) < 1e-6):
        return [-987654]
    return r.astype(int).tolist()


def rebuild(method, locs, pks, t):
    if method == 'splrep':
        return interp.splev(t, interp.splrep(locs, pks))
    return interp.PchipInterpolator(locs, pks)(t)


def grid_class(method, env, locs, pks, N):
    """which sampling grid does the returned envelope correspond to? (independent rebuild)"""
    scale = max(1.0, float(np.abs(pks).max()))
    a = rebuild(method, locs, pks, np.arange(N, dtype=float))
    if np.abs(a - env).max() <= 1e-9 * scale:
        return 'integer'
    frac = locs[0] - np.floor(locs[0])
    b = rebuild(method, locs, pks, np.arange(N, dtype=float) + frac)
    if np.abs(b - env).max() <= 1e-9 * scale:
        return 'shifted'
    return 'neither'


def gen(args):
    emd = core.import_emd()
    seqs, do_env = args[:2]
    modes = args[2] if len(args) > 2 else MODES
    force_mm = args[3] if len(args) > 3 else None      # C06's effect leg: every call is made with the caller's magnitude padding
    recs = []
    gpe = emd.sift.get_padded_extrema
    ie = emd.sift.interp_envelope
    # user-supplied np.pad options for the magnitudes: ONE long-lived dictionary per worker, handed to call after call
    # (as a user's options object is) - the default ('edge') passes nothing
    user_mag = {'mode': 'reflect'}
    user_ext = {'mag_pad_opts': {'mode': 'reflect'}}
    for si, sq in enumerate(seqs):
        # (every third signal is stored as integers: extrema, padding and envelopes are real-valued whatever the input dtype)
        x = np.array(sq, dtype=(np.int64 if si % 3 == 2 else float))
        # (every fifth signal is expressed in a tiny unit, an exact power of two: extrema are where they were, magnitudes and
        #  envelopes scale exactly - no absolute tolerance may decide what an extremum is)
        unit = 2.0 ** -60 if si % 5 == 4 else 1.0
        if unit != 1.0:
            x = x.astype(float) * unit
        N = len(x)
        for pw in range(0, 6):
            for parab in (0, 1):
                for mode in modes:
                    mm = force_mm or ('reflect' if (si + pw + parab) % 4 == 0 else 'edge')
                    kw = {'mag_pad_opts': user_mag} if mm == 'reflect' else {}
                    o = core.guarded(gpe, x, pad_width=pw, mode=mode, parabolic_extrema=bool(parab), **kw)
                    if isinstance(o, str):
                        r = {'none': -99, 'locs': [], 'mags': [], 'err': o}
                    elif o[0] is None:
                        r = {'none': 1, 'locs': [], 'mags': []}
                    else:
                        r = {'none': 0, 'locs': fx(o[0], LS), 'mags': fx(np.asarray(o[1]) / unit, MS)}
                    r.update(kind='pad', sig=list(sq), pw=pw, mode=mode, parab=parab, mm=mm)
                    recs.append(r)
                if not do_env or pw == 0:
                    continue
                for emode in EMODES:
                    for method in METHODS:
                        mm = force_mm or ('reflect' if (si + pw) % 3 == 0 else 'edge')
                        r = {'kind': 'env', 'sig': list(sq), 'pw': pw, 'emode': emode, 'method': method, 'parab': parab, 'mm': mm,
                             'none': 0, 'n_out': -1, 'locs': [], 'mags': [], 'grid': 'n/a', 'knots': []}
                        try:
                            xo = {'pad_width': pw, 'parabolic_extrema': bool(parab)}
                            if mm == 'reflect':
                                user_ext.update(xo)
                                xo = user_ext
                            out = core.guarded(ie, x, mode=emode, interp_method=method, extrema_opts=xo, ret_extrema=True)
                            if isinstance(out, str):
                                r['none'] = -99; r['err'] = out
                            elif out is None:
                                r['none'] = 1
                            else:
                                env, (l, m) = out
                                r['n_out'] = int(len(env))
                                r['locs'] = fx(l, LS); r['mags'] = fx(np.asarray(m) / unit, MS)
                                r['grid'] = grid_class(method, env, np.asarray(l, float), np.asarray(m, float), N) if len(env) == N else 'n/a'
                                if not parab and len(env) == N:
                                    src = {'upper': x, 'lower': -x, 'combined': np.abs(x)}[emode]
                                    pos = [j for j in range(1, N - 1) if src[j] > src[j - 1] and src[j] > src[j + 1]]
                                    kn = fx(env[pos] / unit, MS) if pos else []
                                    r['knots'] = [[p, v] for p, v in zip(pos, kn)] if kn != [-987654] else [[-1, -1]]
                        except Exception as e:
                            r['none'] = -99; r['err'] = type(e).__name__
                        recs.append(r)
    return recs


def gen_extras(seqs):
    """behaviour beyond C05 that rests on the same extrema rules: is_imf's count criterion, zero_crossing_count,
    find_extrema_locked_epochs (only where it is defined: at least two extrema of the requested kind)"""
    emd = core.import_emd()
    recs = []
    for sq in seqs:
        x = np.array(sq, dtype=float)
        o = core.guarded(emd.sift.is_imf, x)
        recs.append({'kind': 'isimf', 'sig': list(sq), 'out': -99 if isinstance(o, str) else int(bool(o[0, 0]))})
        o = core.guarded(emd.sift.zero_crossing_count, x)
        recs.append({'kind': 'zc', 'sig': list(sq), 'out': -99 if isinstance(o, str) else int(o)})
        for mode in ('peaks', 'troughs'):
            src = x if mode == 'peaks' else -x
            npk = sum(1 for j in range(1, len(x) - 1) if src[j] > src[j - 1] and src[j] > src[j + 1])
            if npk < 2:
                continue
            for win in (2, 4):
                o = core.guarded(emd.utils.find_extrema_locked_epochs, x, win, lock_to=mode)
                recs.append({'kind': 'epochs', 'sig': list(sq), 'winsize': win, 'mode': mode,
                             'out': [[-99, -99]] if isinstance(o, str) else [[int(a), int(b)] for a, b in np.asarray(o).reshape(-1, 2)]})
    return recs


def gen_float(args):
    seed, count = args
    emd = core.import_emd()
    rng = np.random.RandomState(seed)
    recs = []
    for _ in range(count):
        N = int(rng.randint(3, 200))
        kind = rng.randint(4)
        x = [rng.randn(N), np.round(rng.randn(N) * 2) / 2, np.repeat(rng.randn(N // 3 + 1), 3)[:N],
             np.cumsum(rng.randn(N))][kind]
        pw = int(rng.randint(0, 6))
        mode = MODES[rng.randint(3)]
        method = METHODS[rng.randint(3)]
        src = {'peaks': x, 'troughs': -x, 'abs_peaks': np.abs(x)}[mode]
        pos = [j for j in range(1, N - 1) if src[j] > src[j - 1] and src[j] > src[j + 1]]
        r = {'kind': 'padf', 'pos': pos, 'n': N, 'pw': pw, 'seed': seed, 'none': 0, 'locs': [], 'mags_ok': 1, 'grid': 'integer'}
        try:
            o = core.guarded(emd.sift.get_padded_extrema, x, pad_width=pw, mode=mode)
            if isinstance(o, str):
                raise RuntimeError(o)
            l, m = o
            if l is None:
                r['none'] = 1
            else:
                r['locs'] = fx(l, LS)
                k = len(pos)
                extra = (len(l) - k) // 2
                mv = np.abs(x) if mode == 'abs_peaks' else x       # magnitudes are those of the (abs) signal itself
                want = np.r_[[mv[pos[0]]] * extra, mv[pos], [mv[pos[-1]]] * extra] if k else np.array([])
                r['mags_ok'] = int(len(want) == len(m) and np.array_equal(np.asarray(m), want))
                if pw > 0:
                    emode = {'peaks': 'upper', 'troughs': 'lower', 'abs_peaks': 'combined'}[mode]
                    o2 = core.guarded(emd.sift.interp_envelope, x, mode=emode, interp_method=method,
                                      extrema_opts={'pad_width': pw}, ret_extrema=True)
                    if isinstance(o2, str):
                        raise RuntimeError(o2)
                    env, (l2, m2) = o2
                    ok = len(env) == N and np.array_equal(l2, l) and np.array_equal(m2, m)
                    r['grid'] = grid_class(method, env, np.asarray(l2, float), np.asarray(m2, float), N) if ok else 'mismatch'
        except Exception as e:
            r['none'] = -99; r['err'] = type(e).__name__
        recs.append(r)
    # parabolic refinement on short integer-valued signals: refined locations are small rationals and can land a
    # rounding error away from a sample index (finding D25): one envelope value per sample, on the integer grid
    fixed = [np.array([-1.0, -1.0, 3.0, 0.0, -1.0, 2.0, -3.0, 4.0, -1.0, -2.0, 1.0, -0.0, 1.0, -1.0, -2.0, -0.0])]
    for i in range(count * 3 + len(fixed)):
        x = fixed[i] if i < len(fixed) else rng.randint(-4, 5, size=int(rng.randint(6, 26))).astype(float)
        N = len(x)
        for emode in ('upper', 'lower'):
            pw = 1 if i < len(fixed) else int(rng.randint(1, 4))
            method = METHODS[rng.randint(3)]
            r = {'kind': 'envp', 'n': N, 'n_out': -1, 'grid': 'n/a', 'none': 0, 'pw': pw, 'x': [int(v) for v in x], 'emode': emode, 'method': method}
            o = core.guarded(emd.sift.interp_envelope, x, mode=emode, interp_method=method,
                             extrema_opts={'pad_width': pw, 'parabolic_extrema': True}, ret_extrema=True)
            if isinstance(o, str):
                r['none'] = -99
                r['err'] = o
            elif o is None:
                r['none'] = 1
            else:
                env, (l2, m2) = o
                r['n_out'] = int(len(env))
                r['grid'] = grid_class(method, env, np.asarray(l2, float), np.asarray(m2, float), N) if len(env) == N else 'n/a'
            recs.append(r)
    return recs


def run():
    ctx = Ctx('C05')
    from .padloop import padloop_leg
    padloop_leg(ctx, 'C05')
    L = ctx.pick(7, 9)
    Lenv = ctx.pick(6, 8)
    invs = ['ExactExtrema', 'RefinedNear', 'PadShape', 'ReversalEquivariant', 'SignFlipEquivariant', 'ScaleEquivariant']
    cfg = os.path.join(ctx.work, 'ex.cfg')
    consts = {'MaxLen': L, 'Levels': '{-1, 0, 1}'.replace('-1', '0 - 1'), 'PadWidths': '{0, 1, 2, 3, 4, 5}'}
    consts['Levels'] = '<- Levels3'
    core.write_cfg(cfg, init='Init', next_='Next', invariants=invs, constants=consts)
    res = core.run_tlc(ctx, 'Extrema', cfg, name='Extrema theorems L<=%d' % L, timeout=3000)
    core.require_ok(res, 'Leg A Extrema')
    for w in ['W_RepeatedPadding', 'W_TwoPass', 'SelfTest_DevReversal']:
        c2 = dict(consts, MaxLen=6)
        core.write_cfg(cfg, init='Init', next_='Next', invariants=[w], constants=c2)
        core.expect_violation(ctx, 'Extrema', cfg, w, 'Extrema ' + w)
    seqs = [s for n in range(3, L + 1) for s in itertools.product(LEVELS, repeat=n)]
    nseeds = 9 * 6 * 3 * 2
    if res['distinct'] - nseeds != len(seqs) * 6 * 3 * 2:
        raise MachineryError('domain mismatch: model %d vs harness %d' % (res['distinct'] - nseeds, len(seqs) * 36))
    import multiprocessing as mp
    jobs = []
    for i in range(0, len(seqs), 60):
        part = seqs[i:i + 60]
        jobs.append(([s for s in part if len(s) <= Lenv], True))
        rest = [s for s in part if len(s) > Lenv]
        if rest:
            jobs.append((rest, False))
    # |x| over three levels only has the symmetric peaks (0,1,0), which parabolic refinement leaves where they are: the
    # rectified mode is therefore also run on a FIVE-level alphabet (|x| in {0,1,2}: vertices still exact in 1/24, 1/96)
    five = [s5 for n in range(3, ctx.pick(5, 6) + 1) for s5 in itertools.product((-2, -1, 0, 1, 2), repeat=n)]
    for i in range(0, len(five), 200):
        jobs.append((five[i:i + 200], False, ('abs_peaks',)))
    bad = []
    nrec = {'pad': 0, 'env': 0}
    with mp.Pool(core.NCPU) as pool:
        buf = []
        for recs in pool.imap_unordered(gen, jobs):
            for r in recs:
                nrec[r['kind']] += 1
                if r['kind'] == 'pad' and r['none'] == 0 and r['pw'] > 0 and len(r['locs']) > 2 + 2 * r['pw']:
                    ctx.nontrivial((tuple(r['sig']), r['pw'], r['mode'], r['parab']))
            buf.extend(recs)
            if len(buf) >= 150000:
                bad += core.validate_records(ctx, 'ExtremaRec', buf, name='ExtremaRec')
                buf = []
        if buf:
            bad += core.validate_records(ctx, 'ExtremaRec', buf, name='ExtremaRec')
        xs = [q for q in seqs if len(q) <= ctx.pick(6, 8)]
        ex = [r for rs in pool.imap_unordered(gen_extras, [xs[i:i + 200] for i in range(0, len(xs), 200)]) for r in rs]
        # specification growth beyond C05 (is_imf's counting criterion, zero_crossing_count, extrema-locked epochs):
        # validated like everything else, but a mismatch there is not a verdict on C05
        xbad = core.validate_records(ctx, 'ExtremaRec', ex, name='ExtremaRec-extras')
        for clause in sorted(set(c for _, c in xbad)):
            rs = [r for r, c in xbad if c == clause]
            ctx.extra('%s disagrees with ExtremaDef on %d records; first: %s' % (clause, len(rs), rs[0]))
        ctx.leg('extras', is_imf_zero_crossing_epoch_records=len(ex), mismatches=len(xbad))
        nf = ctx.pick(1600, 16000)
        fl = [r for rs in pool.imap_unordered(gen_float, [(ctx.seed * 1000 + i, nf // 16) for i in range(16)]) for r in rs]
    bad += core.validate_records(ctx, 'ExtremaRec', fl, name='ExtremaRec-float')
    ex = gen(([(0, 1, -1, 1, 0, 0, 1, -1)], True))
    ctx.sample_first([r for r in ex if r['kind'] == 'pad' and r['pw'] == 2 and r['parab'] == 1])
    ctx.sample_first([r for r in ex if r['kind'] == 'env' and r['pw'] == 1 and r['parab'] == 0 and r['method'] == 'pchip'])
    ctx.cov['exhaustive'] = True
    ctx.cov['rule'] = ('every sequence of length 3..%d over {-1,0,1} x pad_width 0..5 x {peaks,troughs,abs_peaks} x parabolic on/off through '
                       'get_padded_extrema; envelopes (3 interpolants x upper/lower/combined x pad 1..5 x parabolic) for length <= %d; plus %d random '
                       'float signals (noise, half-integer plateaus, repeated values, walks); non-trivial = distinct cases that needed more than '
                       'one padding round' % (L, Lenv, len(fl)))
    ctx.leg('A', invariants=invs)
    ctx.leg('BC', pad_records=nrec['pad'], envelope_records=nrec['env'], float_records=len(fl))
    ctx.assumptions += ['grid classification rebuilds the interpolant (scipy splrep/splev, PchipInterpolator) from the extrema the routine itself returned',
                        'locations compared exactly in units of 1/24 sample, magnitudes in 1/96 (all values are integers in these units on the 3-level alphabet)']
    seen = {}
    for r, clause in bad:
        seen.setdefault(clause, []).append(r)
    for clause, rs in seen.items():
        r = min(rs, key=lambda x: len(x.get('sig', x.get('pos', []))))
        ctx.violation('C05: %s disagrees with the specification on %d records; smallest: %s' % (clause, len(rs), r), {'clause': clause, 'record': r})
    return ctx.finish()


def replay(path):
    import json
    r = json.load(open(path))['replay']['record']
    ctx = Ctx('C05')
    recs = gen(([tuple(r['sig'])], True)) if 'sig' in r else gen_float((r['seed'], 2000))
    bad = core.validate_records(ctx, 'ExtremaRec', recs)
    for rr, clause in bad:
        print('REJECTED clause', clause, rr)
        ctx.violation('C05 replay: ' + clause, {'clause': clause, 'record': rr})
    print('replayed %d records, %d rejected' % (len(recs), len(bad)))
    return ctx.finish()


def main(arg=None):
    rp = os.environ.get('VERIF_REPLAY')
    core.main_wrap((lambda: replay(rp)) if rp else run)
