"""C19: array inputs are layout-insensitive, validated and never modified.

Leg A : TLC checks InputsUntouched / LayoutInsensitive / RejectedNotProcessed on spec/Layout.tla (a
        table of the documented input contracts of 23 entry points) for all sessions of 2 calls; the
        deviations "writes into its input" and "consumes its option dictionary" violate them.
Leg B : every session exported by TLC is executed for real on a fixed small data set: per call the
        verdict dictated by the specification (accept / reject) must be observed (under a watchdog:
        silently processing, or hanging on, input that must be rejected is observable), every input
        array and every option dictionary must be byte-identical afterwards (read-only arrays make any
        in-place write an error), and all accepted layouts / repetitions / re-used option dictionaries
        must give the reference result.
"""
import copy
import hashlib
import json
import os

import numpy as np

from .. import core
from ..core import Ctx, MachineryError
from .sift_check import parse_behaviours

N = 48


def data():
    rng = np.random.RandomState(5)
    x = np.sin(np.arange(N) * .45) + .5 * rng.randn(N)
    ph = np.cumsum(.35 + .05 * rng.rand(N)) % (2 * np.pi)
    lab = np.repeat(np.arange(6), 8)
    infr = np.abs(rng.randn(N)) * 5
    return {'x': x, 'ph': ph, 'lab': lab, 'infr': infr, 'inam': 1 + rng.rand(N), 'edges': np.linspace(2, 8, 4), 'edges2': np.linspace(0, 3, 3)}


def lay(a, l):
    l = {'mixed': 'column', 'mixed_rev': 'vector'}.get(l, l)     # (routines with one data array: the mixed layouts reduce to these)
    if l == 'vector':
        return a.copy()
    if l == 'column':
        return a[:, None].copy()
    if l == 'trailing_ones':
        return a[:, None, None].copy()
    if l == 'two_columns':
        return np.c_[a, a[::-1]].copy()
    if l == 'row':
        return a[None, :].copy()
    if l == 'three_d':
        return (np.zeros((len(a), 2, 3)) + a[:, None, None]).copy()
    if l == 'three_d_one':
        return np.stack([a, a[::-1]], axis=1)[:, :, None].copy()
    if l == 'strided':
        buf = np.full(2 * len(a), -7, dtype=a.dtype)
        buf[::2] = a
        return buf[::2]
    raise ValueError(l)


def sift_opts():
    return {'imf_opts': {'stop_method': 'fixed', 'max_iters': 3, 'env_step_size': .5},
            'envelope_opts': {'interp_method': 'splrep'},
            'extrema_opts': {'pad_width': 2, 'mag_pad_opts': {'mode': 'mean', 'stat_length': 1}}}


def build(emd, ep, l, D, opts, ro=False):
    """returns (callable, list of input arrays).  opts: dict of option dicts owned by the caller (may be re-used)."""
    S, Sp, C, U = emd.sift, emd.spectra, emd.cycles, emd.utils
    x = D['x']
    if ep in ('sift', 'ensemble_sift', 'complete_ensemble_sift', 'mask_sift', 'get_next_imf', 'get_next_imf_mask'):
        a = lay(x, l)
        if ep == 'sift':
            return (lambda: S.sift(a, max_imfs=2, **opts)), [a]
        if ep in ('ensemble_sift', 'complete_ensemble_sift'):
            return (lambda: getattr(S, ep)(a, nensembles=2, nprocesses=1, max_imfs=2, **opts)), [a]
        if ep == 'mask_sift':
            return (lambda: S.mask_sift(a, max_imfs=2, mask_freqs=.2, **opts)), [a]
        if ep == 'get_next_imf':
            return (lambda: S.get_next_imf(a, envelope_opts=opts['envelope_opts'], extrema_opts=opts['extrema_opts'], **opts['imf_opts'])), [a]
        return (lambda: S.get_next_imf_mask(a, .2, 1.0, nphases=2, **opts)), [a]
    if ep == 'interp_envelope':
        a = lay(x, l)
        return (lambda: S.interp_envelope(a, mode='upper', extrema_opts=opts['extrema_opts'])), [a]
    if ep == 'get_padded_extrema':
        a = lay(x, l)
        return (lambda: S.get_padded_extrema(a, pad_width=2, mag_pad_opts=opts['extrema_opts']['mag_pad_opts'])), [a]
    if ep == 'is_imf':
        a = lay(x, l)
        return (lambda: S.is_imf(a, envelope_opts=opts['envelope_opts'], extrema_opts=opts['extrema_opts'])), [a]
    if ep == 'frequency_transform':
        a = lay(x, l)
        return (lambda: Sp.frequency_transform(a, 128, 'hilbert')), [a]
    if ep == 'get_cycle_vector':
        a = lay(D['ph'], l)
        return (lambda: C.get_cycle_vector(a, return_good=False)), [a]
    short = slice(0, N - 3)
    if ep == 'hilberthuang':
        f = lay(D['infr'], {'mismatch': 'vector', 'mixed': 'column', 'mixed_rev': 'vector'}.get(l, l))
        am = lay(D['inam'], {'mismatch': 'vector', 'mixed': 'vector', 'mixed_rev': 'column'}.get(l, l))
        if l == 'mismatch':
            am = am[short].copy()
        e = D['edges'].copy()
        return (lambda: Sp.hilberthuang(f, am, e)), [f, am, e]
    if ep == 'hilberthuang_1d':
        f, am = lay(D['infr'], 'column'), lay(D['inam'], 'column')
        if l == 'mismatch':
            am = am[short].copy()
        e = D['edges'].copy()
        return (lambda: Sp.hilberthuang_1d(f, am, e)), [f, am, e]
    if ep == 'holospectrum':
        f = lay(D['infr'], 'column')
        f2 = (D['infr'] / 4)[:, None, None].copy()
        a2 = D['inam'][:, None, None].copy()
        if l == 'mismatch':
            # two kinds of disagreement in the MIDDLE argument: a few samples short, or (in read-only sessions) a single
            # sample - a shape numpy would broadcast, so only the routine's own validation can refuse it
            f2 = (f2[:1] if ro else f2[short]).copy()
        e, e2 = D['edges'].copy(), D['edges2'].copy()
        return (lambda: Sp.holospectrum(f, f2, a2, e, e2)), [f, f2, a2, e, e2]
    if ep == 'get_cycle_stat':
        lab = D['lab'].copy()
        v = lay(x, 'vector' if l == 'mismatch' else l)
        if l == 'mismatch':
            v = v[short].copy()
        return (lambda: C.get_cycle_stat(lab, v, func=np.sum)), [lab, v]
    if ep == 'phase_align':
        ip = lay(D['ph'], {'mismatch': 'vector', 'mixed': 'column', 'mixed_rev': 'vector'}.get(l, l))
        v = lay(x, {'mismatch': 'vector', 'mixed': 'vector', 'mixed_rev': 'column'}.get(l, l))
        if l == 'mismatch':
            v = v[short].copy()
        return (lambda: C.phase_align(ip, v, npoints=8)), [ip, v]
    if ep == 'bin_by_phase':
        ip = lay(D['ph'], 'vector' if l == 'mismatch' else l)
        v = x[:, None].copy()
        if l == 'mismatch':
            v = v[short].copy()
        return (lambda: C.bin_by_phase(ip, v, nbins=6)), [ip, v]
    if ep == 'bin_by_phase_weighted':
        # phase and data in the session's layout (or in two different accepted ones), weights a vector; the disagreement
        # is in the MIDDLE argument: a few samples short, or (read-only sessions) one sample - broadcastable
        ip = lay(D['ph'], {'mismatch': 'vector', 'mixed': 'column', 'mixed_rev': 'vector'}.get(l, l))
        v = lay(x, {'mismatch': 'vector', 'mixed': 'vector', 'mixed_rev': 'column'}.get(l, l))
        w = (1.0 + np.arange(N) % 3).copy()
        if l == 'mismatch':
            v = (v[:1] if ro else v[short]).copy()
        return (lambda: C.bin_by_phase(ip, v, nbins=6, weights=w)), [ip, v, w]
    if ep == 'amplitude_normalise':
        a = lay(x, 'column')
        return (lambda: U.amplitude_normalise(a)), [a]
    if ep in ('amplitude_normalise_3d', 'frequency_transform_nht_3d'):
        a = (np.abs(np.zeros((len(x), 2, 2)) + x[:, None, None]) + .1 + np.arange(4).reshape(1, 2, 2) * .05).copy()
        if ep == 'amplitude_normalise_3d':
            return (lambda: U.amplitude_normalise(a)), [a]
        return (lambda: Sp.frequency_transform(a, 128, 'nht')), [a]
    if ep in ('sift_second_layer', 'mask_sift_second_layer'):
        # six first-level columns: a 48-sample sift yields fewer IMFs than that, so no cap is needed in sift_args
        IA = np.abs(np.c_[x, x[::-1], np.roll(x, 7), np.roll(x, 13), x ** 2, np.roll(x, 21)]).copy() if ep == 'sift_second_layer' else np.abs(np.c_[x, x[::-1]]).copy()
        so = opts.setdefault('second_args', {'imf_opts': {'stop_method': 'fixed', 'max_iters': 3}} if ep == 'sift_second_layer' else {'nphases': 2})
        if ep == 'sift_second_layer':
            return (lambda: S.sift_second_layer(IA, sift_args=so)), [IA]
        mf = np.array([.2, .1, .05])
        return (lambda: S.mask_sift_second_layer(IA, mf, sift_args=so)), [IA, mf]
    if ep in ('get_cycle_stat_obj', 'phase_align_obj', 'get_control_points_obj', 'phase_align_reused_iterator'):
        Cobj = C.Cycles(D['ph'].copy())
        v = lay(x, 'vector' if l == 'mismatch' else l)
        ip = D['ph'].copy()
        if l == 'mismatch':                      # data longer than the phase the container was built from
            v = np.r_[v, v[:5]].copy()
            ip = np.r_[ip, ip[:5]].copy()
        if ep == 'get_cycle_stat_obj':
            return (lambda: C.get_cycle_stat(Cobj, v, func=np.sum)), [v]
        if ep == 'phase_align_obj':
            return (lambda: C.phase_align(ip, v, cycles=Cobj, npoints=8)), [ip, v]
        if ep == 'phase_align_reused_iterator':
            # one IterateCycles object serves an augmented-mode call and then the default call whose result is returned:
            # the mode ARGUMENT governs each call, nothing is left behind in the iterator (reference: phase_align_obj)
            it = Cobj.iterate()

            def two_calls():
                C.phase_align(ip, v, cycles=it, npoints=8, mode='augmented')
                return C.phase_align(ip, v, cycles=it, npoints=8)
            return two_calls, [ip, v]
        return (lambda: C.get_control_points(v, Cobj)), [v]
    raise ValueError(ep)


def digest(o):
    h = hashlib.sha1()

    def feed(v):
        if isinstance(v, (tuple, list)):
            for q in v:
                feed(q)
        elif hasattr(v, 'toarray'):
            feed(v.toarray())
        elif v is None:
            h.update(b'None')
        else:
            a = np.ascontiguousarray(np.asarray(v))
            h.update(str(a.shape[0] if a.ndim else 0).encode())
            h.update(np.nan_to_num(a.astype(float), nan=-12345.0).ravel().tobytes())
    feed(o)
    return h.hexdigest()


def scribble(o):
    """overwrite every writable array of a result in place"""
    if isinstance(o, (tuple, list)):
        for q in o:
            scribble(q)
    elif isinstance(o, np.ndarray) and o.flags.writeable and o.size and o.dtype.kind in 'fiu':
        o[...] = 77


def normo(v):
    if isinstance(v, dict):
        return {k: normo(x) for k, x in v.items()}
    if isinstance(v, (list, tuple)):
        return [normo(x) for x in v]
    return v


def one_call(emd, ep, l, ro, opts, D):
    call, arrays = build(emd, ep, l, D, opts, ro=bool(ro))
    before = [a.tobytes() for a in arrays]
    obefore = copy.deepcopy(opts)
    if ro:
        for a in arrays:
            a.flags.writeable = False
    np.random.seed(9)
    out = core.guarded(call, _timeout=20)
    untouched = all(a.tobytes() == b for a, b in zip(arrays, before)) and normo(opts) == normo(obefore)
    if isinstance(out, str):
        return {'outcome': 'timeout' if out == 'raise:Timeout' else 'raised', 'exc': out, 'untouched': untouched, 'digest': ''}
    dg = digest(out)
    scribble(out)       # the caller owns what it was given back: overwriting it must not influence any later call
    return {'outcome': 'returned', 'exc': '', 'untouched': untouched, 'digest': dg}


def edit_another_config(emd):
    """a user edits the nested padding options of a configuration object of their own; no later call is given it"""
    for variant in ('sift', 'mask_sift'):
        c = emd.sift.get_config(variant)
        c['extrema_opts/mag_pad_opts/stat_length'] = 3
        c['extrema_opts']['loc_pad_opts']['reflect_type'] = 'even'
        c['extrema_opts']['mag_pad_opts']['mode'] = 'mean'


def replay(emd, hist, verdicts, D, ref, edited=False):
    if edited:
        edit_another_config(emd)
    opts = sift_opts()
    for k, (ep, l, ro, reuse) in enumerate(hist):
        if not reuse:
            opts = sift_opts()
        r = one_call(emd, ep, l, ro, opts, D)
        want = verdicts[k]
        what = 'call %d %s(layout=%s, readonly=%s, reuse_opts=%s)' % (k + 1, ep, l, ro, reuse)
        if not r['untouched']:
            return what + ': an input array or option dictionary was modified'
        if want == 'accept':
            if r['outcome'] != 'returned':
                return what + ': must be accepted but %s' % (r['exc'])
            if r['digest'] != ref[REF_OF.get(ep, ep)]:
                return what + ': result differs from the reference result of this routine (layout / history dependent)'
        else:
            if r['outcome'] == 'returned':
                return what + ': must be rejected with an error but was processed'
            if r['outcome'] == 'timeout':
                return what + ': must be rejected with an error but did not return'
    return None


def reference(emd, D):
    ref = {}
    for ep in EPS:
        l = 'column' if ep in ('bin_by_phase_weighted', 'hilberthuang_1d', 'holospectrum', 'amplitude_normalise', 'amplitude_normalise_3d', 'frequency_transform_nht_3d', 'sift_second_layer', 'mask_sift_second_layer') else 'vector'
        r = one_call(emd, ep, l, False, sift_opts(), D)
        if r['outcome'] != 'returned':
            raise MachineryError('reference call of %s failed: %s' % (ep, r['exc']))
        ref[ep] = r['digest']
    return ref


REF_OF = {'phase_align_reused_iterator': 'phase_align_obj'}
EPS = ['phase_align_reused_iterator', 'sift_second_layer', 'mask_sift_second_layer', 'get_cycle_stat_obj', 'phase_align_obj', 'get_control_points_obj', 'sift', 'ensemble_sift', 'complete_ensemble_sift', 'mask_sift', 'get_next_imf', 'get_next_imf_mask', 'interp_envelope',
       'get_padded_extrema', 'is_imf', 'frequency_transform', 'get_cycle_vector', 'hilberthuang', 'hilberthuang_1d', 'holospectrum',
       'get_cycle_stat', 'phase_align', 'bin_by_phase', 'bin_by_phase_weighted', 'amplitude_normalise', 'amplitude_normalise_3d', 'frequency_transform_nht_3d']


def _job(args):
    emd = core.import_emd()
    items, ref = args
    D = data()
    return [(j, replay(emd, h, v, D, ref, e)) for j, h, v, e in items]


def run():
    ctx = Ctx('C19')
    cfg = os.path.join(ctx.work, 'ly.cfg')
    invs = ['InputsUntouched', 'LayoutInsensitive', 'RejectedNotProcessed']
    same = 'TRUE' if ctx.quick else 'FALSE'
    consts = {'MaxCalls': 2, 'Dev': '{}', 'SameEP': same}
    core.write_cfg(cfg, spec='Spec', invariants=invs, constants=consts)
    res = core.run_tlc(ctx, 'Layout', cfg, name='Layout sessions of 2 calls')
    core.require_ok(res, 'Leg A Layout')
    for dev, inv in (('{"WritesIntoInput"}', 'InputsUntouched'), ('{"ConsumesOptionDict"}', 'LayoutInsensitive'), ('{"SharedDefaultObjects"}', 'LayoutInsensitive')):
        core.write_cfg(cfg, spec='Spec', invariants=[inv], constants=dict(consts, Dev=dev, SameEP='TRUE'))
        core.expect_violation(ctx, 'Layout', cfg, inv, 'Layout Dev=' + dev, workers=4)
    core.write_cfg(cfg, spec='Spec', invariants=['Export'], constants=consts)
    res = core.run_tlc(ctx, 'Layout', cfg, name='Layout session export', workers=1)
    core.require_ok(res, 'Layout export')
    behs = parse_behaviours(res['out'])
    items = [(j, [[o[0], o[1], bool(o[2]), bool(o[3])] for o in b['hist']], list(b['verdicts']), bool(b['edited'])) for j, b in enumerate(behs)]
    emd = core.import_emd()
    ref = reference(emd, data())
    ctx.leg('A', invariants=invs, sessions=len(items), entry_points=len(EPS))
    nbad = 0
    seen = set()
    for part in core.pmap(_job, [(items[i::32], ref) for i in range(32)], workers=16):
        for j, diff in part:
            ctx.cov['evaluations'] += 1
            h = items[j][1]
            if 'reject' in items[j][2] or any(o[3] for o in h) or any(o[2] for o in h):
                ctx.nontrivial(j)
            if diff:
                key = (diff.split(':', 1)[1][:60], diff.split('(')[0].split(' ')[-1])
                nbad += 1
                if key not in seen and len(seen) < 12:
                    seen.add(key)
                    ctx.violation('C19: session %s: %s' % (h, diff), {'session': h, 'expected_verdicts': items[j][2], 'difference': diff})
                elif key not in seen:
                    ctx.violations.append(diff)
            else:
                ctx.cov['traces_validated_against_impl'] += 1
    ctx.sample({'session': items[len(items) // 2][1], 'expected_verdicts': items[len(items) // 2][2]})
    ctx.leg('B', sessions_replayed=len(items), mismatching_sessions=nbad)
    ctx.cov['exhaustive'] = True
    ctx.cov['rule'] = ('ALL sessions of 2 calls over 23 entry points x the layouts their contract accepts or rejects ((n,), (n,1), (n,1,1) vs (n,2), (1,n), (n,2,3); vector vs column; '
                       'equal vs mismatched lengths) x writable / read-only arrays x fresh / re-used option dictionaries%s; non-trivial = sessions containing a rejection, a read-only call '
                       'or a re-used option dictionary' % (' (quick: both calls to the same entry point)' if ctx.quick else ''))
    ctx.assumptions += ['"rejected" = any exception within the 20 s watchdog; a call that does not return counts as processed-not-rejected',
                        'results are compared through digests of the returned arrays (ensemble variants seeded, one process)']
    return ctx.finish()


def main(arg=None):
    core.main_wrap(run)
