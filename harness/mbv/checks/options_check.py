"""C06: every sift option takes effect at the stage it configures, in every variant.

Leg A : TLC checks StageSeesSupplied / CarriesDownstream on spec/OptionFlow.tla (one action per call
        site of emd/sift.py, parent and worker processes) for every variant x route x supplied-pattern;
        each historical dropped-option call site is shown to violate them.
Leg C : the three stage functions are wrapped (before any pool is created, so forked workers inherit
        the wrappers); the driver walks variant x route x 2^3 supplied patterns with distinguishable
        non-default values and TLC validates every observed stage call against spec/OptionFlowRec.tla:
        the caller->stage edge must be an edge of the specification and the stage must have received
        exactly what was supplied.
"""
import copy
import itertools
import os

import numpy as np

from .. import core
from ..core import Ctx, MachineryError
from ..instrument import OptionTrace

USER = {
    'imf': {'stop_method': 'fixed', 'env_step_size': 0.5, 'max_iters': 4, 'sd_thresh': 0.07, 'rilling_thresh': (0.06, 0.6, 0.07)},
    'env': {'interp_method': 'pchip'},
    'ext': {'pad_width': 3, 'parabolic_extrema': True, 'mag_pad_opts': {'mode': 'mean', 'stat_length': 2}},
}
KEY = {'imf': 'imf_opts', 'env': 'envelope_opts', 'ext': 'extrema_opts'}
DEF_IMF = {'env_step_size': 1, 'max_iters': 1000, 'energy_thresh': None, 'stop_method': 'sd', 'sd_thresh': .1,
           'rilling_thresh': [0.05, 0.5, 0.05]}
DEF_EXT = {'pad_width': 2, 'parabolic_extrema': False, 'loc_pad_opts': [None, {}, {'mode': 'reflect', 'reflect_type': 'odd'}],
           'mag_pad_opts': [None, {}, {'mode': 'median', 'stat_length': 1}]}


def norm(v):
    if isinstance(v, tuple):
        return [norm(x) for x in v]
    if isinstance(v, list):
        return [norm(x) for x in v]
    if isinstance(v, dict):
        return {k: norm(x) for k, x in v.items()}
    return v


def cls_imf(eff):
    keys = ('env_step_size', 'max_iters', 'energy_thresh', 'stop_method', 'sd_thresh', 'rilling_thresh')
    got = {k: norm(eff.get(k)) for k in keys}
    if all(got[k] == norm(DEF_IMF[k]) for k in keys):
        return 'default'
    want = dict(DEF_IMF, **USER['imf'])
    if all(got[k] == norm(want[k]) for k in keys):
        return 'user'
    return 'mixed'


def cls_env_dict(d):
    if d in (None, {}) or d == {'interp_method': 'splrep'}:
        return 'default'
    return 'user' if norm(d) == norm(USER['env']) else 'mixed'


def cls_ext_vals(pad_width, parabolic, loc, mag):
    isdef = pad_width == 2 and parabolic is False and loc in DEF_EXT['loc_pad_opts'] and mag in DEF_EXT['mag_pad_opts']
    if isdef:
        return 'default'
    u = USER['ext']
    if pad_width == u['pad_width'] and parabolic is True and loc in DEF_EXT['loc_pad_opts'] and norm(mag) == norm(u['mag_pad_opts']):
        return 'user'
    return 'mixed'


def cls_ext_dict(d):
    if d in (None, {}):
        return 'default'
    return cls_ext_vals(d.get('pad_width', 2), d.get('parabolic_extrema', False), d.get('loc_pad_opts'), d.get('mag_pad_opts'))


def sees(stage, eff):
    s = {'imf': 'n/a', 'env': 'n/a', 'ext': 'n/a'}
    if 'bind_error' in eff:
        return {'imf': 'mixed', 'env': 'mixed', 'ext': 'mixed'}
    if stage == 'get_next_imf':
        s['imf'] = cls_imf(eff)
        s['env'] = cls_env_dict(eff.get('envelope_opts'))
        s['ext'] = cls_ext_dict(eff.get('extrema_opts'))
    elif stage == 'interp_envelope':
        s['env'] = 'default' if eff.get('interp_method') == 'splrep' else ('user' if eff.get('interp_method') == USER['env']['interp_method'] else 'mixed')
        s['ext'] = cls_ext_dict(eff.get('extrema_opts'))
    else:
        s['ext'] = cls_ext_vals(eff.get('pad_width'), eff.get('parabolic_extrema'), eff.get('loc_pad_opts'), eff.get('mag_pad_opts'))
    return s


def build_call(emd, variant, route, pattern, x, mode):
    """returns (callable, user option objects) for one grid point"""
    S = emd.sift
    groups = {g: copy.deepcopy(USER[g]) for g in pattern}
    small = {'sift': {'max_imfs': 2}, 'ensemble_sift': {'max_imfs': 2, 'nensembles': 2, 'nprocesses': 2, 'noise_mode': mode},
             'complete_ensemble_sift': {'max_imfs': 2, 'nensembles': 2, 'nprocesses': 2, 'noise_mode': mode},
             'mask_sift': {'max_imfs': 2, 'nprocesses': 2, 'nphases': 2, 'mask_freqs': ('zc', .2)[mode == 'flip']}}
    if variant in ('sift_second_layer', 'mask_sift_second_layer'):
        IA = np.abs(np.c_[x, np.roll(x, 5)])
        args = {KEY[g]: v for g, v in groups.items()}
        args['max_imfs'] = 2
        if variant == 'sift_second_layer':
            return (lambda: S.sift_second_layer(IA, sift_args=args)), groups
        args.update(nphases=2, nprocesses=2)
        return (lambda: S.mask_sift_second_layer(IA, [.2, .1, .05], sift_args=args)), groups
    fn = getattr(S, variant)
    if route == 'kwargs':
        kw = dict(small[variant], **{KEY[g]: v for g, v in groups.items()})
        return (lambda: fn(x, **kw)), groups
    cfg = S.get_config(variant)
    for k, v in small[variant].items():
        cfg[k] = v
    if route == 'partial_after_edit':
        # a history on ONE configuration object: a partial is taken, THEN the options are edited in the nested
        # dictionaries directly (the style shown in get_config's docstring), then a partial is taken again
        stale = cfg.get_func()
        for g, v in groups.items():
            for kk, vv in v.items():
                cfg[KEY[g]][kk] = vv
        return (lambda: cfg.get_func()(x)), groups
    for g, v in groups.items():
        for kk, vv in v.items():
            cfg[KEY[g] + '/' + kk] = vv
    if route == 'config':
        return (lambda: fn(x, **cfg)), groups
    return (lambda: cfg.get_func()(x)), groups


def _job(args):
    emd = core.import_emd()
    tdir, items = args
    tdir = os.path.join(tdir, 'ot-%d' % os.getpid())
    recs = []
    parent = os.getpid()
    for (variant, route, pattern, mode, sig) in items:
        rng = np.random.RandomState(sig)
        x = np.sin(np.arange(80) * .3) + .4 * rng.randn(80)
        call, groups = build_call(emd, variant, route, pattern, x, mode)
        before = copy.deepcopy(groups)
        supplied = {g: ('user' if g in pattern else 'default') for g in ('imf', 'env', 'ext')}
        with OptionTrace(emd, tdir) as T:
            np.random.seed(1)
            out = core.guarded(call, _timeout=120)
            ev = T.read()
        base = {'variant': variant, 'route': route, 'supplied': supplied, 'mode': mode}
        cnt = {'get_next_imf': 0, 'interp_envelope': 0, 'get_padded_extrema': 0}
        seen = set()
        for e in ev:
            cnt[e['stage']] += 1
            caller = e['caller']
            if caller in ('mapstar', 'starmapstar', 'worker', '_worker_loop'):
                caller = 'pool'
            s = sees(e['stage'], e['eff'])
            key = (e['stage'], caller, e['pid'] != parent, tuple(sorted(s.items())))
            if key in seen:
                continue
            seen.add(key)
            recs.append(dict(base, kind='stage', stage=e['stage'], caller=caller, proc='worker' if e['pid'] != parent else 'parent', sees=s,
                             eff=repr(e['eff']) if any(v == 'mixed' for v in s.values()) else ''))
        recs.append(dict(base, kind='run', raised=int(isinstance(out, str)), err=out if isinstance(out, str) else '',
                         n_get_next_imf=cnt['get_next_imf'], n_interp_envelope=cnt['interp_envelope'], n_get_padded_extrema=cnt['get_padded_extrema'],
                         caller_opts_untouched=int(norm(before) == norm(groups)),
                         nworker=len(set(e['pid'] for e in ev if e['pid'] != parent))))
    return recs


def _extra_job(args):
    """zero-valued options and option objects edited in place between two calls (per variant and delivery route)"""
    emd = core.import_emd()
    variant, route, sig = args
    S = emd.sift
    rng = np.random.RandomState(sig)
    n = 160
    x = np.sin(np.arange(n) * .9) + .5 * np.sin(np.arange(n) * .11) + .05 * rng.randn(n)
    small = {'sift': {'max_imfs': 3}, 'ensemble_sift': {'max_imfs': 2, 'nensembles': 2, 'nprocesses': 2},
             'complete_ensemble_sift': {'max_imfs': 2, 'nensembles': 2, 'nprocesses': 2},
             'mask_sift': {'max_imfs': 3, 'nprocesses': 2, 'nphases': 2, 'mask_freqs': .2}}[variant]
    fn = getattr(S, variant)

    def call(imf_opts, cfg=None):
        np.random.seed(3)
        if route == 'kwargs':
            r = fn(x, imf_opts=imf_opts, **small)
        else:
            c = cfg if cfg is not None else S.get_config(variant)
            for k, v in small.items():
                c[k] = v
            for k, v in imf_opts.items():
                c['imf_opts'][k] = v
            r = fn(x, **c) if route == 'config' else c.get_func()(x)
        return r[0] if isinstance(r, tuple) else r
    recs = []
    # energy_thresh = 0 dB against a tiny positive threshold: the same decision at every layer
    # (ensemble_sift is asked for one component: with an energy threshold its members stop after the first IMF, and the
    #  routine raises IndexError when members return fewer columns than the cap - DESIGN appendix B, not C06's matter)
    keep = dict(small)
    if variant == 'ensemble_sift':
        small['max_imfs'] = 1
    a = core.guarded(call, {'energy_thresh': 0.0}, _timeout=120)
    b = core.guarded(call, {'energy_thresh': 1e-9}, _timeout=120)
    small.update(keep)
    recs.append({'kind': 'zero', 'variant': variant, 'route': route, 'option': 'imf_opts/energy_thresh', 'raised': int(isinstance(a, str) or isinstance(b, str)),
                 'same': int(not isinstance(a, str) and not isinstance(b, str) and a.shape == b.shape and np.array_equal(a, b))})
    # the supplied extrema / envelope options keep their effect when the data is expressed in a tiny unit (an exact power
    # of two: every intermediate scales exactly) - an option that is silently dropped below some absolute size shows here
    def call_x(arr, eo, xo, st):          # st: sift_thresh, an ABSOLUTE magnitude by its documentation - it is scaled with the unit
        np.random.seed(3)
        if route == 'kwargs':
            r = fn(arr, imf_opts={'stop_method': 'fixed', 'max_iters': 3}, envelope_opts=dict(eo), extrema_opts=dict(xo), sift_thresh=st, **small)
        else:
            c = S.get_config(variant)
            for k, v in small.items():
                c[k] = v
            c['imf_opts']['stop_method'] = 'fixed'
            c['imf_opts']['max_iters'] = 3
            c['envelope_opts'].update(eo)
            c['extrema_opts'].update(xo)
            c['sift_thresh'] = st
            r = fn(arr, **c) if route == 'config' else c.get_func()(arr)
        return r[0] if isinstance(r, tuple) else r
    if variant in ('sift', 'mask_sift'):
        unit = 2.0 ** -40
        kz = dict(small)
        if variant == 'mask_sift':
            small['mask_amp_mode'] = 'ratio_sig'
        a = core.guarded(call_x, x, {'interp_method': 'pchip'}, {'parabolic_extrema': True, 'pad_width': 3}, 1e-8, _timeout=120)
        b = core.guarded(call_x, x * unit, {'interp_method': 'pchip'}, {'parabolic_extrema': True, 'pad_width': 3}, 1e-8 * unit, _timeout=120)
        small.clear()
        small.update(kz)
        bad = isinstance(a, str) or isinstance(b, str)
        recs.append({'kind': 'zero', 'variant': variant, 'route': route, 'option': 'extrema_opts/parabolic_extrema at a unit of 2^-40', 'raised': int(bad),
                     'same': int(not bad and a.shape == b.shape and np.array_equal(a * unit, b))})
    # one option object, two calls, edited in place in between; the reference is a call with a fresh object holding the new values
    first = {'stop_method': 'fixed', 'max_iters': 2, 'env_step_size': 1}
    second = {'stop_method': 'fixed', 'max_iters': 5, 'env_step_size': .5}
    if route == 'kwargs':
        live = dict(first)
        r1 = core.guarded(call, live, _timeout=120)
        live.update(second)
        r2 = core.guarded(call, live, _timeout=120)
    else:
        cfg = S.get_config(variant)
        r1 = core.guarded(call, dict(first), cfg, _timeout=120)
        r2 = core.guarded(call, dict(second), cfg, _timeout=120)
    ref = core.guarded(call, dict(second), _timeout=120)
    bad = any(isinstance(v, str) for v in (r1, r2, ref))
    recs.append({'kind': 'reuse', 'variant': variant, 'route': route, 'raised': int(bad),
                 'same': int(not bad and r2.shape == ref.shape and np.array_equal(r2, ref)),
                 'first_differs': int(not bad and not (r1.shape == ref.shape and np.array_equal(r1, ref)))})
    return recs


def run():
    ctx = Ctx('C06')
    cfg = os.path.join(ctx.work, 'of.cfg')
    invs = ['StageSeesSupplied', 'CarriesDownstream']
    core.write_cfg(cfg, spec='Spec', invariants=invs, constants={'Dev': '{}'})
    res = core.run_tlc(ctx, 'OptionFlow', cfg, name='OptionFlow call graph')
    core.require_ok(res, 'Leg A OptionFlow')
    core.write_cfg(cfg, spec='Spec', invariants=['SitesSeen'], constants={'Dev': '{}'})
    r2 = core.run_tlc(ctx, 'OptionFlow', cfg, name='OptionFlow call-site coverage', workers=1)
    import re
    cov = {}
    for m in re.finditer(r'<<\s*"SITE",\s*"(\w+)"\s*>>', r2['out']):
        cov[m.group(1)] = cov.get(m.group(1), 0) + 1
    dead = [a for a in ('Sift_GetNextImf', 'Ens_Pool_SiftWithNoise', 'Ceemd_Pool_SiftWithNoise', 'Ceemd_Pool_NoiseSift', 'SiftWithNoise_Sift',
                        'Mask_GetMaskFreqs', 'MaskFreqs_GetNextImf', 'Mask_GetNextImfMask', 'ImfMask_Pool_GetNextImf', 'Second_Sift', 'MaskSecond_MaskSift',
                        'GetNextImf_InterpEnvelope', 'InterpEnvelope_GetPaddedExtrema') if not cov.get(a)]
    if dead:
        raise MachineryError('vacuity: call sites never taken in the model: %s' % dead)
    for dev in ('MaskJob_DropsEnvExt', 'MaskFreqs_DropsEnvExt', 'CEEMD_NoiseSift_DropsOpts'):
        core.write_cfg(cfg, spec='Spec', invariants=invs, constants={'Dev': '{"%s"}' % dev})
        r = core.run_tlc(ctx, 'OptionFlow', cfg, name='OptionFlow Dev=' + dev, kind='selftest', workers=4)
        if not r['violated']:
            raise MachineryError('self-test: deviation %s does not violate the invariants' % dev)
    core.write_cfg(cfg, spec='Spec', invariants=['W_WorkerStage'], constants={'Dev': '{}'})
    core.expect_violation(ctx, 'OptionFlow', cfg, 'W_WorkerStage', 'OptionFlow W_WorkerStage', workers=4)
    ctx.leg('A', invariants=invs, call_site_coverage=cov)
    pats = [tuple(g for g, b in zip(('imf', 'env', 'ext'), bits) if b) for bits in itertools.product((0, 1), repeat=3)]
    items = []
    for variant in ('sift', 'ensemble_sift', 'complete_ensemble_sift', 'mask_sift'):
        for route in ('kwargs', 'config', 'partial', 'partial_after_edit'):
            for pat in pats:
                for mode in (('single', 'flip') if variant != 'sift' else ('single',)):
                    for sig in range(ctx.pick(1, 3)):
                        items.append((variant, route, pat, mode, sig))
    for variant in ('sift_second_layer', 'mask_sift_second_layer'):
        for pat in pats:
            items.append((variant, 'kwargs', pat, 'single', 0))
    recs = [r for p in core.pmap(_job, [(ctx.work, items[i::16]) for i in range(16)], workers=8) for r in p]
    xjobs = [(v, r, s) for v in ('sift', 'ensemble_sift', 'complete_ensemble_sift', 'mask_sift') for r in ('kwargs', 'config', 'partial') for s in range(ctx.pick(1, 3))]
    recs += [r for p in core.pmap(_extra_job, xjobs, workers=8) for r in p]
    bad = core.validate_records(ctx, 'OptionFlowRec', recs, name='OptionFlowRec')
    for r in recs:
        if r['kind'] == 'stage' and r['proc'] == 'worker' and 'user' in r['supplied'].values():
            ctx.nontrivial((r['variant'], r['route'], tuple(sorted(r['supplied'].items())), r['mode'], r['stage'], r['caller']))
    ctx.sample_first([r for r in recs if r['kind'] == 'stage' and r['proc'] == 'worker'])
    ctx.sample([r for r in recs if r['kind'] == 'run'][5])
    ctx.leg('C', runs=len(items), stage_records=sum(1 for r in recs if r['kind'] == 'stage'),
            edges_observed=sorted(set((r['caller'], r['stage']) for r in recs if r['kind'] == 'stage')))
    seen = {}
    for r, clause in bad:
        seen.setdefault((clause, r['variant'], r.get('stage'), r.get('caller')), []).append(r)
    for (clause, variant, stage, caller), rs in seen.items():
        r = rs[0]
        ctx.violation('C06: %s violated in %s (%s -> %s) on %d records; first: route=%s mode=%s supplied=%s sees=%s proc=%s %s' % (
            clause, variant, caller, stage, len(rs), r['route'], r.get('mode'), r.get('supplied', r.get('option')), r.get('sees'), r.get('proc'), r.get('err') or (r.get('eff') or '')),
            {'clause': clause, 'record': r})
    # Leg E: the option has its EFFECT at the stage, not only its arrival there: the extrema-padding stage called with the
    # caller's magnitude padding ({'mode': 'reflect'}), directly and through interp_envelope's extrema_opts, on signals with so
    # few extrema that the padding has to be repeated - every round must pad the way the caller configured
    # (ExtremaDef!PaddedWith, the operator C05 validates the default padding against).
    from . import extrema_check as XC
    rng = np.random.RandomState(ctx.seed + 606)
    eseqs = sorted(set(tuple(int(v) for v in rng.randint(-1, 2, size=rng.randint(5, 10))) for _ in range(ctx.pick(200, 2000))))
    erecs = [r for p in core.pmap(XC.gen, [(eseqs[i::8], True, XC.MODES, 'reflect') for i in range(8)], workers=8) for r in p]
    ebad = core.validate_records(ctx, 'ExtremaRec', erecs, name='ExtremaRec-option-effect')
    nrep = 0
    for r in erecs:
        if r['kind'] == 'pad' and r['none'] == 0 and r['pw'] > 0 and len(r['locs']) > 2 + 2 * r['pw']:
            nrep += 1
            ctx.nontrivial(('effect', tuple(r['sig']), r['pw'], r['mode'], r['parab']))
    eseen = {}
    for r, clause in ebad:
        eseen.setdefault((r['kind'], clause), []).append(r)
    for (kind, clause), rs in eseen.items():
        rs.sort(key=lambda r: (len(r['sig']), r['pw']))
        ctx.violation("C06: extrema_opts mag_pad_opts={'mode': 'reflect'} does not take effect in %s (%s) on %d records; smallest: %s" % (
            {'pad': 'get_padded_extrema', 'env': 'interp_envelope'}[kind], clause, len(rs), rs[0]), {'leg': 'E', 'clause': clause, 'record': rs[0]})
    ctx.leg('E', records=len(erecs), signals=len(eseqs), repeated_padding_records=nrep, mismatches=len(ebad))
    ctx.cov['exhaustive'] = True
    ctx.cov['rule'] = ('variant in {sift, ensemble_sift, complete_ensemble_sift, mask_sift} x route {keyword dicts, **SiftConfig, get_func partial, get_func partial re-issued after direct nested edits} x all 2^3 patterns of supplied '
                       'option groups (distinguishable non-default values incl. custom np.pad options) x noise mode / mask-frequency source, plus both second-layer sifts; every distinct '
                       '(stage, caller, process, classification) observation is one record; non-trivial = stage calls observed inside pool workers with user-supplied options')
    ctx.assumptions += ['a stage "sees user options" iff every key of its group equals the supplied value; default-equivalent spellings (None, {}, explicit default np.pad dicts) count as default',
                        'wrappers are inherited by pool workers through fork']
    return ctx.finish()


def main(arg=None):
    core.main_wrap(run)
