"""C15: the cycle container keeps metrics, subsets and chains coherent; the slice cache is irrelevant.

Leg A : TLC checks OneEntryPerCycle / SubsetIsMatching / ChainsAreMaximalRuns on
        spec/CyclesContainer.tla for all operation histories to a depth bound, three phase families.
Leg B : every exported history (exhaustive to depth 2/3, simulated to depth 12) is replayed on TWO real
        Cycles objects (use_cache on / off); after every operation the projection (all metrics,
        subset_vect, chain_vect, exported table rows) of both must equal the specification's state.
        Condition strings are rendered from the model's triples in several spellings.
"""
import json
import os

import numpy as np

from .. import core
from ..core import Ctx, MachineryError
from .cycles_check import table
from .sift_check import parse_behaviours

NAMES = ["is_good", "m1", "m2", "m3", "start_sample", "stop_sample", "duration", "chain_ind",
         "chain_start", "chain_end", "chain_len_samples", "chain_len_cycles", "chain_position"]
PHASE = {1: [2, 8, 14, 22, 2, 9, 15, 22, 1, 9, 16, 23, 3, 12, 21],
         2: [1, 12, 23, 1, 7, 13, 19, 23, 3, 10, 22, 1, 8, 16, 23, 0, 11, 22, 2],
         3: [6, 13, 20, 23, 1, 9, 9, 22, 1, 6, 12, 19, 23, 2, 12, 21, 1, 10, 21]}
CONDS = [[("is_good", "==", 2)], [("duration", ">=", 8)], [("duration", "<", 8), ("is_good", "!=", 0)], [("start_sample", ">", 6)],
         [("m3", "<=", 2)], [("m3", ">", 200)], [("start_sample", ">=", 0), ("duration", "!=", 6), ("m3", "<", 6)],
         [("chain_ind", ">", -2)], [("duration", ">", 7)], [("m1", ">", 20)], [("m1", "<=", 21), ("duration", "==", 8)],
         [("chain_position", "==", 0)], [("duration", "==+", 8)],
         [("duration", "!=+", 8), ("start_sample", "<=+", 16), ("start_sample", ">+", 0)], [("start_sample", "!=", 8)]]
FUNC = {'sum': np.sum, 'max': np.max, 'len': len}


def spell(l2, k):
    v = l2 / 2.0
    if l2 % 2 == 0:
        i = l2 // 2
        forms = ['%d' % i, '%d.0' % i, '%de0' % i, '%.1fe1' % (i / 10.0)]
    else:
        forms = ['%.1f' % v, '%de-1' % int(round(v * 10)), '%.2fe1' % (v / 10)]
    return forms[k % len(forms)]


def render(conds, k):
    out = []
    for i, (n, op, l2) in enumerate(conds):
        if op.endswith('+'):            # the literal plus a tiny amount: l2 is even here
            out.append('%s%s%d.%s' % (n, op[:-1], l2 // 2, ('000001', '0000001')[k % 2]))
        else:
            out.append('%s%s%s' % (n, op, spell(l2, k + i)))
    return out


def vectors(fam):
    n = len(PHASE[fam])
    idx = np.arange(n, dtype=float)
    val = np.array([((7 * i) % 5) + (i % 3) for i in range(1, n + 1)], dtype=float)
    return {'idx': idx, 'val': val}


def project(C):
    out = []
    for n in NAMES:
        if n in C.metrics:
            a = np.asarray(C.metrics[n], dtype=float)
            out.append([-1 if np.isnan(v) else int(round(v)) for v in a])
        else:
            out.append([])
    sv = [] if C.subset_vect is None else [int(v) for v in C.subset_vect]
    ch = [] if C.chain_vect is None else [int(v) for v in C.chain_vect]
    return out, sv, ch


def apply_op(emd, C, op, vecs, K, k):
    kind = op[0]
    rows = None
    if kind == 'compute':
        C.compute_cycle_metric(op[1], vecs[op[2]], FUNC[op[3]], mode=op[4])
    elif kind == 'add':
        C.add_cycle_metric('m3', np.arange(K if op[2] == 'ok' else K + 1))
    elif kind == 'timings':
        C.compute_cycle_timings()
    elif kind == 'pick':
        C.pick_cycle_subset(render(CONDS[op[1] - 1], k))
    elif kind == 'chain_timings':
        C.compute_chain_timings()
    elif kind == 'export':
        if op[1] == 'all':
            df = C.get_metric_dataframe()
            rows = [int(i) for i in df.index]
        elif op[1] == 'subset':
            df = C.get_metric_dataframe(subset=True)
            rows = [int(i) for i in df['index']]
        else:
            df = C.get_metric_dataframe(conditions=render(CONDS[op[2] - 1], k))
            rows = [int(i) for i in df['index']]
        for n in C.metrics:
            col = [(-1 if (isinstance(v, float) and np.isnan(v)) else int(round(float(v)))) for v in df[n]]
            src = np.asarray(C.metrics[n], float)
            want = [(-1 if np.isnan(src[i]) else int(round(src[i]))) for i in rows]
            if col != want:
                raise AssertionError('exported column %s %s disagrees with metric %s on rows %s' % (n, col, want, rows))
    return rows


def replay(emd, fam, hist, states, k):
    val, edge = table(1)
    ph = val[PHASE[fam]]
    vecs = vectors(fam)
    objs = [emd.cycles.Cycles(ph, use_cache=True), emd.cycles.Cycles(ph, use_cache=False)]
    K = objs[0].ncycles
    for i, op in enumerate(hist):
        want = states[json.dumps(hist[:i + 1])]
        rows = []
        for C in objs:
            try:
                rows.append(apply_op(emd, C, op, vecs, K, k))
            except Exception as e:
                return 'op %d %s raised %s: %s (use_cache=%s)' % (i + 1, op, type(e).__name__, e, C._slice_cache is not None)
        pa, pb = project(objs[0]), project(objs[1])
        if pa != pb:
            d = [NAMES[j] for j in range(len(NAMES)) if pa[0][j] != pb[0][j]]
            return 'after op %d %s: use_cache=True and use_cache=False disagree on %s: %s vs %s' % (i + 1, op, d or 'subset/chain', [pa[0][NAMES.index(n)] for n in d], [pb[0][NAMES.index(n)] for n in d])
        if pa[0] != want['metrics']:
            d = [NAMES[j] for j in range(len(NAMES)) if pa[0][j] != want['metrics'][j]]
            return 'after op %d %s: metrics %s: real %s, specification %s' % (i + 1, op, d, [pa[0][NAMES.index(n)] for n in d], [want['metrics'][NAMES.index(n)] for n in d])
        if pa[1] != want['subset'] or pa[2] != want['chain']:
            return 'after op %d %s: subset/chain real %s %s, specification %s %s' % (i + 1, op, pa[1], pa[2], want['subset'], want['chain'])
        if op[0] == 'export' and (rows[0] != want['lastExport'] or rows[1] != want['lastExport']):
            return 'export %s: rows %s / %s, specification %s' % (op, rows[0], rows[1], want['lastExport'])
    return None


def _job(args):
    emd = core.import_emd()
    items, states = args
    return [(j, fam, replay(emd, fam, h, states[fam], j)) for j, fam, h in items]


def export(ctx, cfg, fam, depth, simulate=None, focus=0):
    consts = {'M': 24, 'MaxOps': depth, 'Fam': fam, 'Focus': int(focus)}
    core.write_cfg(cfg, spec='Spec', invariants=['Export_'], constants=consts)
    if simulate:
        res = core.run_tlc(ctx, 'CyclesContainer', cfg, name='CyclesContainer fam %d simulation' % fam, workers=1,
                           simulate='num=%d' % simulate, depth=depth + 1, seed=ctx.seed + fam, kind='simulation')
    else:
        res = core.run_tlc(ctx, 'CyclesContainer', cfg, name='CyclesContainer fam %d export' % fam, workers=1)
        core.require_ok(res, 'CyclesContainer export')
    return parse_behaviours(res['out'])


def run():
    ctx = Ctx('C15')
    D = ctx.pick(2, 3)
    cfg = os.path.join(ctx.work, 'cc.cfg')
    invs = ['OneEntryPerCycle', 'SubsetIsMatching', 'ChainsAreMaximalRuns']
    states, items = {}, []
    nsim = ctx.pick(60, 600)
    for fam in (1, 2, 3):
        core.write_cfg(cfg, spec='Spec', invariants=invs, constants={'M': 24, 'MaxOps': D + 1, 'Fam': fam, 'Focus': 0})
        res = core.run_tlc(ctx, 'CyclesContainer', cfg, name='CyclesContainer fam %d depth %d' % (fam, D + 1))
        core.require_ok(res, 'Leg A CyclesContainer')
        behs = export(ctx, cfg, fam, D)
        sim = export(ctx, cfg, fam, 12, simulate=nsim)
        FD = ctx.pick(4, 5)
        foc = export(ctx, cfg, fam, FD, focus=1) if fam != 3 or not ctx.quick else []
        F2 = 7                          # includes the compute_cycle_timings preamble (depth 8 needs more memory than is reasonable)
        foc2 = export(ctx, cfg, fam, F2, focus=2)

        def hist_of(b):
            return [list(o) for o in b['hist']]
        st = {}
        for b in behs + sim + foc + foc2:
            st[json.dumps(hist_of(b))] = {'metrics': [list(m) for m in b['metrics']], 'subset': list(b['subset']), 'chain': list(b['chain']),
                                          'lastExport': list(b['lastExport'])}
        states[fam] = st
        paths = [hist_of(b) for b in behs if len(b['hist']) == D] + [hist_of(b) for b in foc if len(b['hist']) == FD] + [hist_of(b) for b in foc2 if len(b['hist']) == F2]
        deep = {}
        for b in sim:
            if len(b['hist']) == 12:
                deep[json.dumps(hist_of(b))] = hist_of(b)
        for h in paths + list(deep.values()):
            items.append((len(items), fam, h))
    for w in ('W_TwoChains', 'W_EmptySelection', 'W_LongSecondChain'):
        core.write_cfg(cfg, spec='Spec', invariants=[w], constants={'M': 24, 'MaxOps': 4, 'Fam': 1, 'Focus': 2} if w == 'W_LongSecondChain' else {'M': 24, 'MaxOps': 3, 'Fam': 2, 'Focus': 0})
        core.expect_violation(ctx, 'CyclesContainer', cfg, w, 'CyclesContainer ' + w, workers=4)
    ctx.leg('A', invariants=invs, histories=len(items))
    nbad = 0
    shares = []
    for i in range(16):
        mine = items[i::16]
        shares.append((mine, {fam: core.states_for(states[fam], [h for _, f, h in mine if f == fam]) for fam in states}))
    for part in core.pmap(_job, shares):
        for j, fam, diff in part:
            ctx.cov['evaluations'] += 1
            h = items[j][2]
            if any(o[0] == 'pick' for o in h) and any(o[0] in ('compute', 'chain_timings') for o in h):
                ctx.nontrivial(j)
            if diff:
                nbad += 1
                if nbad <= 6:
                    ctx.violation('C15 leg B (family %d): history %s: %s' % (fam, h, diff), {'leg': 'B', 'family': fam, 'history': h, 'difference': diff})
            else:
                ctx.cov['traces_validated_against_impl'] += 1
    ctx.sample({'leg': 'B', 'family': items[3][1], 'history': items[3][2], 'expected': states[items[3][1]][json.dumps(items[3][2])]})
    # open finding D18: augmented metrics vs the slice cache when the previous cycle is ambiguous
    emd = core.import_emd()
    val, edge = table(1)
    ph = val[[2, 8, 14, 22, 2, 20, 5, 22, 1, 9, 16, 23, 3, 12, 21]]
    v = np.arange(len(ph), dtype=float)
    m = []
    for cache in (True, False):
        try:
            C = emd.cycles.Cycles(ph, use_cache=cache)
            C.compute_cycle_metric('s', v, np.sum, mode='augmented')
            m.append(np.asarray(C.metrics['s'], float))
        except Exception as e:
            m.append(np.array([-99.0]))
            ctx.violation('C15: augmented metric on the 15-sample probe raised %s: %s (use_cache=%s)' % (type(e).__name__, e, cache),
                          {'class': 'augmented_metric_raises', 'use_cache': cache})
    if m[0].shape != m[1].shape:
        ctx.violation('C15: augmented metric has %d entries with the slice cache and %d without' % (len(m[0]), len(m[1])), {'class': 'cache_discrepancy_shape'})
    elif not np.array_equal(m[0], m[1], equal_nan=True):
        differ = [int(i) for i in np.where(~((m[0] == m[1]) | (np.isnan(m[0]) & np.isnan(m[1]))))[0]]
        ctx.violation('C15: augmented metric differs with the slice cache on cycles %s (previous cycle non-monotonic)' % differ,
                      {'class': 'augmented_cache_discrepancy_on_ambiguous_previous_cycle' if differ == [2] else 'cache_discrepancy', 'cycles': differ})
    # metrics are real-valued whatever the dtype of the per-sample vector: mean / std of INTEGER- and BOOL-typed vectors,
    # with and without the slice cache, against the function applied to each cycle's samples (computed here)
    nprobe = 0
    for fam in (1, 2, 3):
        phf = val[PHASE[fam]]
        for dt in (np.int64, np.int16, bool, np.float32):
            vv = (np.arange(len(phf)) * 7 % 5).astype(dt) if dt is not bool else (np.arange(len(phf)) % 3 == 0)
            for fname, f in (('mean', np.mean), ('std', np.std)):
                got = []
                for cache in (True, False):
                    try:
                        Cq = emd.cycles.Cycles(phf, use_cache=cache)
                        Cq.compute_cycle_metric('q', vv, f)
                        got.append(np.asarray(Cq.metrics['q'], float))
                        cvq = Cq.cycle_vect[:, 0] if Cq.cycle_vect.ndim == 2 else Cq.cycle_vect
                    except Exception as e:
                        got.append(np.array([np.nan]))
                        cvq = None
                nprobe += 1
                if cvq is None:
                    ctx.violation('C15: compute_cycle_metric(%s of a %s vector) raised (family %d)' % (fname, np.dtype(dt).name, fam), {'class': 'metric_of_typed_vector_raises', 'dtype': np.dtype(dt).name})
                    continue
                want = np.array([float(f(vv[cvq == c].astype(float))) for c in range(int(cvq.max()) + 1)])
                for cache, g in zip((True, False), got):
                    if g.shape != want.shape or not np.allclose(g, want, rtol=1e-6, atol=1e-9):
                        ctx.violation('C15: %s of a %s per-sample vector per cycle (family %d, use_cache=%s): container holds %s, the function over each cycle\'s samples gives %s'
                                      % (fname, np.dtype(dt).name, fam, cache, g.tolist(), want.tolist()),
                                      {'class': 'metric_of_typed_vector', 'dtype': np.dtype(dt).name, 'func': fname, 'use_cache': cache, 'family': fam})
                        break
    ctx.leg('typed-vectors', probes=nprobe)
    ctx.leg('B', histories_replayed=len(items), mismatches=nbad)
    ctx.cov['rule'] = ('ALL histories of %d operations over {compute metric (2 names x 2 vectors x sum/max/len x cycle/augmented), add metric (right / wrong length), compute timings, '
                       'pick subset (11 condition lists: 1-3 conditions, all six comparators, negative / decimal / exponent literal spellings, an empty selection), chain timings, '
                       'export (all / subset / conditions)} for 3 phase families, plus ALL histories of depth 4/5 over a focused alphabet (re-computing a metric that a selection depends on, re-selecting, chain timings, subset export) and simulated histories of depth 12, each replayed on a cached and an uncached container; '
                       'non-trivial = histories with a selection and a metric or chain computation' % D)
    ctx.assumptions += ['phase families are chosen so that the two definitions of the augmented cycle coincide (see known finding D18 for the case where they do not)']
    return ctx.finish()


def main(arg=None):
    core.main_wrap(run)
