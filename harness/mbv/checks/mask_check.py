"""C07: masked sift applies the documented masks, removes them and is schedule independent.

Leg A : TLC checks OrderIndependent / EachPhaseOnce / termination of spec/MaskSift.tla for all
        worker interleavings (the "results in completion order" deviation violates it).
Leg B : TLC schedules forced onto the real get_next_imf_mask through the forking ScriptedPool;
        the result must be bit-identical for every schedule.
Leg C : real mask_sift(ret_mask_freq=True) over frequency sources, amplitude modes, step factors,
        nphases 1..8, nprocesses 1..8 with the arrays each job received traced in the workers;
        TLC validates the per-layer and per-run records against spec/MaskSiftRec.tla.
"""
import hashlib
import os
from fractions import Fraction

import numpy as np

from .. import core
from ..core import Ctx, MachineryError
from ..instrument import InputTrace, UseScriptedPool
from .sift_check import parse_behaviours, signal


def fit(m, z):
    """least-squares fit m[t] ~ c cos(2 pi z t) + s sin(2 pi z t); returns amp, phase, relative residual"""
    t = np.arange(len(m))
    A = np.c_[np.cos(2 * np.pi * z * t), np.sin(2 * np.pi * z * t)]
    co, *_ = np.linalg.lstsq(A, m, rcond=None)
    amp = float(np.hypot(*co))
    ph = float(np.arctan2(-co[1], co[0])) % (2 * np.pi)
    res = float(np.abs(A @ co - m).max())
    return amp, ph, res


def analyse(emd, x, kw, nproc, tdir, seed):
    """run mask_sift with tracing and derive the records"""
    S = emd.sift
    recs = []
    amps0 = np.array(kw['mask_amp'], dtype=float).copy() if not np.isscalar(kw['mask_amp']) else kw['mask_amp']   # as supplied
    X2 = np.asarray(x, float)[:, None]
    N = len(x)
    with InputTrace(emd, tdir) as T:
        out = core.guarded(S.mask_sift, x, ret_mask_freq=True, nprocesses=nproc, _timeout=120, **kw)
        ev = T.read()
    src = kw['mask_freqs']
    srcname = 'list' if isinstance(src, (list, tuple, np.ndarray)) else ('float' if isinstance(src, float) else src)
    step = Fraction(kw.get('mask_step_factor', 2)).limit_denominator(16)
    run = {'kind': 'run', 'src': srcname, 'mode': kw['mask_amp_mode'], 'nphases': kw['nphases'], 'nproc': nproc, 'seed': seed,
           'raised': 0, 'ladder': int(srcname != 'list'), 'z6': [], 'p': step.numerator, 'q': step.denominator,
           'list_ok': 1, 'zc_ok': 1, 'if_ok': 1, 'same_across_procs': 1, 'nfreqs_ok': 1}
    if isinstance(out, str):
        run['raised'] = 1
        run['err'] = out
        return [run]
    imf, freqs = out
    freqs = np.asarray(freqs, float)
    L = imf.shape[1]
    run['z6'] = [int(round(z * 1e6)) for z in freqs[:max(L, 1)]]
    run['nfreqs_ok'] = int(len(freqs) >= L)
    if srcname == 'list':
        run['list_ok'] = int(np.array_equal(freqs[:L], np.asarray(src, float)[:L]))
    opts = dict(envelope_opts=kw.get('envelope_opts'), extrema_opts=kw.get('extrema_opts'), **(kw.get('imf_opts') or {}))
    if srcname == 'zc':
        first = S.get_next_imf(X2, **opts)[0][:, 0]
        sg = np.sign(first)
        nzc = sum(1 for i in range(N - 1) if sg[i + 1] != sg[i])
        run['zc_ok'] = int(freqs[0] == nzc / N / 4)
    if srcname == 'if':
        # documented: the amplitude-weighted mean instantaneous frequency (cycles per sample) of the unmasked first IMF
        first = S.get_next_imf(X2, **opts)[0]
        _, IF, IA = emd.spectra.frequency_transform(first[:, 0, None], 1, 'nht', smooth_phase=3)
        want = float(np.average(IF, weights=IA))
        run['if_ok'] = int(abs(freqs[0] - want) <= 1e-12 * max(abs(want), 1e-300))
    # other worker counts must give the identical result
    other = 1 if nproc != 1 else 3
    o2 = core.guarded(S.mask_sift, x, ret_mask_freq=True, nprocesses=other, _timeout=120, **kw)
    run['same_across_procs'] = int(not isinstance(o2, str) and np.array_equal(o2[0], imf) and np.array_equal(o2[1], out[1]))
    recs.append(run)
    arrays = [np.array(e['x']).reshape(-1, 1) for e in ev if len(e['x']) == N]
    amps = amps0
    n = kw['nphases']
    t = np.arange(N)
    used = set()
    for k in range(L):
        inp = X2 - imf[:, :k].sum(axis=1)[:, None]
        z = float(freqs[k])
        Ak = float(amps if np.isscalar(amps) else amps[k])
        jobs = []
        for ai, a in enumerate(arrays):
            if ai in used:
                continue
            m = (a - inp)[:, 0]
            if Ak == 0:
                continue
            amp, ph, res = fit(m, z)
            if amp > 0 and res <= 1e-8 * amp:
                jobs.append((ai, a, m, amp, ph))
        jobs = jobs[:n] if len(jobs) > n else jobs
        for j in jobs:
            used.add(j[0])
        sdX = float(X2.std())
        sdP = float(imf[:, k - 1].std()) if k > 0 else None
        cands = {'one': Ak, 'sd_signal': Ak * sdX}
        if sdP is not None:
            cands['sd_previous_imf'] = Ak * sdP
        amp_obs = float(np.median([j[3] for j in jobs])) if jobs else -1.0
        matches = [nm for nm, v in cands.items() if abs(amp_obs - abs(v)) <= 1e-7 * max(abs(v), 1e-12)]
        pidx = [int(round(j[4] * n / (2 * np.pi))) % n for j in jobs]
        pfrac = [abs(j[4] * n / (2 * np.pi) - round(j[4] * n / (2 * np.pi))) for j in jobs]
        # collation recomputed: mean over phases of (unmasked extraction of the traced array - the documented mask)
        col_ok = 0
        if len(jobs) == n and matches:
            want_amp = cands[matches[0]]
            acc = []
            for (_, a, m, amp, ph) in sorted(jobs, key=lambda j: j[4]):
                i = int(round(ph * n / (2 * np.pi))) % n
                mask = want_amp * np.cos(2 * np.pi * z * t + 2 * np.pi * i / n)
                E = S.get_next_imf(a, **opts)[0][:, 0]
                acc.append(E - mask)
            want = np.mean(acc, axis=0)
            col_ok = int(np.allclose(imf[:, k], want, rtol=0, atol=1e-9 * (1 + np.abs(want).max())))
        recs.append({'kind': 'layer', 'k': k + 1, 'n': n, 'njobs': len(jobs), 'mode': kw['mask_amp_mode'], 'src': srcname,
                     'phase_idx': pidx, 'fit_ok': int(len(jobs) == n and max(pfrac + [0]) < 1e-6), 'amp_matches': matches or ['none'],
                     'collate_ok': col_ok, 'seed': seed, 'nproc': nproc, 'z': z, 'amp_obs': amp_obs})
    return recs


def configs(rng):
    kind = ('noise', 'tones', 'amfm', 'walk')[rng.randint(4)]
    N = int(rng.choice([96, 160, 256]))
    x = signal(kind, N, rng)
    if rng.rand() < .25:
        # quantised data stored as integers (ADC counts): the masked sift works in floating point whatever the input dtype
        x = np.round(np.asarray(x, float) * 40).astype([np.int16, np.int64][rng.randint(2)])
    src = ('zc', 'if', 'float', 'list')[rng.randint(4)]
    kw = {'nphases': int(rng.randint(1, 9)), 'mask_amp_mode': str(rng.choice(['abs', 'ratio_sig', 'ratio_imf'])),
          'max_imfs': int(rng.choice([2, 3, 4])), 'mask_step_factor': float(rng.choice([2, 3, 1.5]))}
    if src == 'float':
        kw['mask_freqs'] = float(rng.choice([.12, .2, .31]))
    elif src == 'list':
        kw['mask_freqs'] = [float(v) for v in (.3 / np.array([1, 2.5, 5, 11]))[:kw['max_imfs']]]
    else:
        kw['mask_freqs'] = src
    if rng.rand() < .5:
        kw['mask_amp'] = float(rng.choice([.5, 1, 2]))
    else:
        kw['mask_amp'] = [float(v) for v in rng.choice([.5, 1, 1.5, 2], size=kw['max_imfs'])]
        if rng.rand() < .5:
            kw['mask_amp'] = np.array(kw['mask_amp'])      # a float array owned by the caller, re-used by the next call
    if rng.rand() < .4:
        kw['imf_opts'] = {'stop_method': 'fixed', 'max_iters': 3, 'env_step_size': .5}
    return x, kw


def _job(args):
    emd = core.import_emd()
    tdir, seeds = args
    tdir = os.path.join(tdir, 'it-%d' % os.getpid())
    out = []
    for seed in seeds:
        rng = np.random.RandomState(seed)
        x, kw = configs(rng)
        nproc = int(rng.randint(1, 9))
        out += analyse(emd, x, kw, nproc, tdir, seed)
        if seed % 3 == 0:        # zero amplitude reduces to unmasked extraction
            kz = dict(kw, mask_amp=0.0 if np.isscalar(kw['mask_amp']) else [0.0] * len(kw['mask_amp']), mask_amp_mode='abs')
            o = core.guarded(emd.sift.mask_sift, x, _timeout=60, **kz)
            ok = 0
            if not isinstance(o, str):
                ok = 1
                X2 = x[:, None]
                opts = dict(envelope_opts=kz.get('envelope_opts'), extrema_opts=kz.get('extrema_opts'), **(kz.get('imf_opts') or {}))
                for k in range(o.shape[1]):
                    inp = X2 - o[:, :k].sum(axis=1)[:, None]
                    ref = emd.sift.get_next_imf(inp, **opts)[0][:, 0]
                    ok &= int(np.allclose(o[:, k], ref, rtol=0, atol=1e-12 * (1 + np.abs(ref).max())))
            out.append({'kind': 'zero', 'zero_ok': ok, 'seed': seed})
        if seed % 3 == 1:
            # a mask of frequency exactly zero (the documented example list of mask frequencies ends in 0) is the constant
            # amp * cos(phase): with one phase (phase 0) the definition gives  get_next_imf(X + amp) - amp
            amp = float(rng.choice([.5, .75, 2]))
            xf = np.asarray(x, float)
            opts = dict(envelope_opts=kw.get('envelope_opts'), extrema_opts=kw.get('extrema_opts'), **(kw.get('imf_opts') or {}))
            o = core.guarded(emd.sift.get_next_imf_mask, xf[:, None], 0.0, amp, nphases=1, nprocesses=1,
                             imf_opts=kw.get('imf_opts') or {}, envelope_opts=kw.get('envelope_opts') or {}, extrema_opts=kw.get('extrema_opts') or {}, _timeout=60)
            ok = 0
            if not isinstance(o, str):
                ref = emd.sift.get_next_imf(xf[:, None] + amp, **opts)[0] - amp
                got = o[0] if isinstance(o, tuple) else o
                ok = int(np.shape(got) == np.shape(ref) and np.allclose(got, ref, rtol=0, atol=1e-12 * (1 + np.abs(ref).max())))
            # ... and through mask_sift with an explicit list that ends in 0
            kz = dict(kw, mask_freqs=[.25, .1, 0.0], max_imfs=3, nphases=1, mask_amp=amp, mask_amp_mode='abs')
            o2 = core.guarded(emd.sift.mask_sift, xf, _timeout=60, **kz)
            ok2 = 0
            if not isinstance(o2, str) and o2.shape[1] == 3:
                resid = xf[:, None] - o2[:, :2].sum(axis=1)[:, None]
                ref2 = emd.sift.get_next_imf(resid + amp, **opts)[0][:, 0] - amp
                ok2 = int(np.allclose(o2[:, 2], ref2, rtol=0, atol=1e-9 * (1 + np.abs(ref2).max())))
            elif not isinstance(o2, str):
                ok2 = 1          # the sift ended before the third layer: nothing to compare
            out.append({'kind': 'zerofreq', 'helper_ok': ok, 'sift_ok': ok2, 'seed': seed})
        if seed % 3 == 2:
            # the same extraction with data AND mask amplitude expressed in a tiny unit (an exact power of two): every
            # intermediate scales exactly - a mask must not be judged "absent" by its absolute size
            unit = 2.0 ** -40
            amp = float(rng.choice([.5, 1.5]))
            z = float(rng.choice([.1, .23]))
            xf = np.asarray(x, float)
            nph = int(rng.choice([1, 3, 4]))
            kwh = dict(nphases=nph, nprocesses=1, imf_opts={'stop_method': 'fixed', 'max_iters': 3}, envelope_opts={}, extrema_opts={})
            a = core.guarded(emd.sift.get_next_imf_mask, xf[:, None], z, amp, _timeout=60, **kwh)
            b = core.guarded(emd.sift.get_next_imf_mask, xf[:, None] * unit, z, amp * unit, _timeout=60, **kwh)
            ok = int(not isinstance(a, str) and not isinstance(b, str) and np.array_equal(np.asarray(a[0]) * unit, np.asarray(b[0])))
            out.append({'kind': 'zerofreq', 'helper_ok': ok, 'sift_ok': 1, 'seed': seed, 'what': 'tiny unit'})
    return out


def _sched_job(args):
    emd = core.import_emd()
    scheds, n, w, seed = args
    rng = np.random.RandomState(seed)
    x = signal('tones', 128, rng) + .2 * rng.randn(128)
    ref = emd.sift.get_next_imf_mask(x, .1, 1.5, nphases=n, nprocesses=1)[0]
    out = []
    for s in scheds:
        with UseScriptedPool(emd, s):
            r = core.guarded(emd.sift.get_next_imf_mask, x, .1, 1.5, nphases=n, nprocesses=w)
        out.append({'kind': 'sched', 'same': int(not isinstance(r, str) and np.array_equal(r[0], ref)), 'schedule': s, 'seed': seed})
    return out


def run():
    ctx = Ctx('C07')
    cfg = os.path.join(ctx.work, 'ms.cfg')
    n, w = ctx.pick((3, 2), (4, 3))
    consts = {'NPhases': n, 'NWorkers': w, 'Dev': '{}'}
    core.write_cfg(cfg, spec='Spec', invariants=['OrderIndependent', 'EachPhaseOnce'], properties=['Terminates'], constants=consts)
    res = core.run_tlc(ctx, 'MaskSift', cfg, name='MaskSift %d phases x %d workers' % (n, w), coverage=True)
    core.require_ok(res, 'Leg A MaskSift')
    core.write_cfg(cfg, spec='Spec', invariants=['OrderIndependent'], constants=dict(consts, Dev='{"ResultsInCompletionOrder"}'))
    core.expect_violation(ctx, 'MaskSift', cfg, 'OrderIndependent', 'MaskSift results-in-completion-order deviation', workers=4)
    core.write_cfg(cfg, spec='Spec', invariants=['W_OutOfOrderCompletion'], constants=consts)
    core.expect_violation(ctx, 'MaskSift', cfg, 'W_OutOfOrderCompletion', 'MaskSift W_OutOfOrderCompletion', workers=4)
    core.write_cfg(cfg, spec='Spec', invariants=['Export'], constants=consts)
    res = core.run_tlc(ctx, 'MaskSift', cfg, name='MaskSift schedule export', workers=1)
    core.require_ok(res, 'MaskSift export')
    scheds, seen = [], set()
    for b in parse_behaviours(res['out']):
        k = (tuple(b['assigned']), tuple(b['order']))
        if k not in seen:
            seen.add(k)
            scheds.append({'assigned': list(b['assigned']), 'order': list(b['order'])})
    ctx.leg('A', invariants=['OrderIndependent', 'EachPhaseOnce', 'Terminates'], schedules=len(scheds))
    sj = [(scheds[i::16], n, w, ctx.seed + i) for i in range(16) if scheds[i::16]]
    srecs = [r for p in core.pmap(_sched_job, sj) for r in p]
    nruns = ctx.pick(48, 480)
    seeds = [ctx.seed * 10000 + i for i in range(nruns)]
    recs = [r for p in core.pmap(_job, [(ctx.work, seeds[i::16]) for i in range(16)]) for r in p]
    bad = core.validate_records(ctx, 'MaskSiftRec', srecs + recs, name='MaskSiftRec')
    for r in recs:
        if r['kind'] == 'layer' and r['n'] > 1 and r['k'] > 1:
            ctx.nontrivial((r['seed'], r['k']))
    ctx.sample_first([r for r in recs if r['kind'] == 'run'])
    ctx.sample_first([r for r in recs if r['kind'] == 'layer' and r['k'] == 2])
    ctx.sample_first(srecs)
    kinds = {}
    for r in srecs + recs:
        kinds[r['kind']] = kinds.get(r['kind'], 0) + 1
    ctx.leg('B', scripted_schedules=len(srecs))
    ctx.leg('C', records=kinds)
    seen = {}
    for r, clause in bad:
        seen.setdefault(clause, []).append(r)
    for clause, rs in seen.items():
        ctx.violation('C07: %s violated on %d records; first: %s' % (clause, len(rs), rs[0]), {'clause': clause, 'record': rs[0]})
    ctx.cov['rule'] = ('Leg B: every (assignment, completion order) schedule of %d phase jobs on %d workers exported by TLC, forced onto get_next_imf_mask; '
                       'Leg C: %d mask_sift runs over frequency sources {zc, if, float, list} x amplitude modes x scalar/array amplitudes x step factors {2,3,1.5} x nphases 1..8 x '
                       'nprocesses 1..8 (each also compared with a run on a different worker count) plus zero-amplitude runs; non-trivial = layers beyond the first with more than one phase'
                       % (n, w, nruns))
    ctx.assumptions += ['masks are recovered as (array received by the job - layer input) and fitted by least squares at the RETURNED frequency (residual <= 1e-8 amp)',
                        "for 'if' the first frequency is recomputed by the harness from the library's own frequency_transform (C09) as the amplitude-weighted mean",
                        'collation oracle: unmasked get_next_imf on the traced arrays']
    return ctx.finish()


def main(arg=None):
    core.main_wrap(run)
