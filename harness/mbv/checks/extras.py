"""Specification-growth legs beyond the listed properties (each attached to the check of the nearest property):
model-checked with TLC and bound to the real routines by record validation, but reported through ctx.extra -
a disagreement is recorded and printed, never a verdict on the property whose check hosts the leg.

  waveform_leg : spec/WaveformCycles*.tla  <-> emd.cycles.get_cycle_vector_from_waveform      (hosted by C12)
  histbins_leg : spec/HistBins*.tla        <-> emd.spectra.define_hist_bins(_from_data)       (hosted by C10)
"""
import itertools
import os

import numpy as np

from .. import core


def _validate_quietly(ctx, module, recs, name):
    cov0 = (ctx.cov['traces_validated_against_impl'], ctx.cov['evaluations'])
    bad = core.validate_records(ctx, module, recs, name=name)
    ctx.cov['traces_validated_against_impl'], ctx.cov['evaluations'] = cov0       # not counted towards the host's coverage
    for clause in sorted(set(c for _, c in bad)):
        rs = [r for r, c in bad if c == clause]
        ctx.extra('%s disagrees with %s on %d records; first: %s' % (clause, module, len(rs), rs[0]))
    return len(bad)


def _gen_waveform(seqs):
    emd = core.import_emd()
    recs = []
    for sq in seqs:
        x = np.array(sq, dtype=float)
        for start in ('peaks', 'troughs'):
            o = core.guarded(emd.cycles.get_cycle_vector_from_waveform, x, cycle_start=start)
            out = [-99] if isinstance(o, str) else [int(v) for v in np.asarray(o)[:, 0]]
            recs.append({'x': list(sq), 'start': start, 'out': out})
    return recs


def waveform_leg(ctx):
    cfg = os.path.join(ctx.work, 'wc.cfg')
    L = ctx.pick(7, 9)
    invs = ['Contiguous', 'NoGaps', 'Duality', 'ImplIsIntentWhenBalanced']
    core.write_cfg(cfg, init='Init', next_='Next', invariants=invs, constants={'MaxLenW': L, 'LevelsW': '<- LevelsW3'})
    core.require_ok(core.run_tlc(ctx, 'WaveformCycles', cfg, name='WaveformCycles theorems'), 'WaveformCycles')
    core.write_cfg(cfg, init='Init', next_='Next', invariants=['W_TwoCycles'], constants={'MaxLenW': 7, 'LevelsW': '<- LevelsW3'})
    core.expect_violation(ctx, 'WaveformCycles', cfg, 'W_TwoCycles', 'WaveformCycles W_TwoCycles', workers=2)
    core.write_cfg(cfg, init='Init', next_='Next', invariants=['W_ImplDiffers'], constants={'MaxLenW': 7, 'LevelsW': '<- LevelsW3'})
    core.expect_violation(ctx, 'WaveformCycles', cfg, 'W_ImplDiffers', 'WaveformCycles: implementation differs from intent for troughs', workers=2)
    seqs = [q for n in range(3, L + 1) for q in itertools.product((-1, 0, 1), repeat=n)]
    rng = np.random.RandomState(ctx.seed)
    seqs += [tuple(int(v) for v in rng.randint(-3, 4, size=int(rng.randint(5, 40)))) for _ in range(ctx.pick(300, 3000))]
    recs = [r for rs in core.pmap(_gen_waveform, [seqs[i::16] for i in range(16)]) for r in rs]
    nbad = _validate_quietly(ctx, 'WaveformCyclesRec', recs, 'WaveformCyclesRec')
    ctx.leg('cycles from waveform (beyond the property, not a verdict)', invariants=invs, records=len(recs), mismatches=nbad)


def histbins_leg(ctx):
    emd = core.import_emd()
    cfg = os.path.join(ctx.work, 'hb.cfg')
    invs = ['WellFormed', 'Partition']
    core.write_cfg(cfg, init='Init', next_='Next', invariants=invs, constants={'MaxV': ctx.pick(6, 10), 'MaxBins': ctx.pick(8, 12)})
    core.require_ok(core.run_tlc(ctx, 'HistBins', cfg, name='HistBins theorems'), 'HistBins')
    recs = []

    def ints(a, scale):
        a = np.asarray(a, float) * scale
        r = np.rint(a)
        return [int(v) for v in r] if np.all(np.abs(a - r) < 1e-6) else [-98]
    rng = np.random.RandomState(ctx.seed)
    for lo in range(-4, 5):
        for hi in range(lo + 1, 7):
            for n in (1, 2, 3, 4, 5, 8):
                o = core.guarded(emd.spectra.define_hist_bins, lo, hi, n)
                e, c = ([-99], [-99]) if isinstance(o, str) else (ints(o[0], 2 * n), ints(o[1], 2 * n))
                recs.append({'lo': lo, 'hi': hi, 'nbins': n, 'nsamples': 0, 'n_out': -1 if isinstance(o, str) else len(o[1]), 'e2': e, 'c2': c})
    for _ in range(ctx.pick(100, 1000)):
        N = int(rng.randint(2, 120))
        X = rng.randint(-5, 9, size=N).astype(float)
        if X.min() == X.max():
            X[0] += 1
        nb = int(rng.choice([0, 0, 3, 7]))
        o = core.guarded(emd.spectra.define_hist_bins_from_data, X, nbins=(nb or None))
        n = nb or int(np.floor(np.sqrt(N)))
        e, c = ([-99], [-99]) if isinstance(o, str) else (ints(o[0], 2 * n), ints(o[1], 2 * n))
        recs.append({'lo': int(X.min()), 'hi': int(X.max()), 'nbins': nb, 'nsamples': N, 'n_out': -1 if isinstance(o, str) else len(o[1]), 'e2': e, 'c2': c})
    nbad = _validate_quietly(ctx, 'HistBinsRec', recs, 'HistBinsRec')
    ctx.leg('histogram bins (beyond the property, not a verdict)', invariants=invs, records=len(recs), mismatches=nbad)
