"""./check <ID> [--tier quick|thorough] [--replay path]"""
import argparse
import importlib
import os
import sys

CHECKS = {
    'C12': ('cycles_check', 'C12'),
    'C13': ('cycles_check', 'C13'),
    'C16': ('maps_check', None),
    'C02': ('lockstep_check', None),
    'C09': ('phase_check', None),
    'C19': ('layout_check', None),
    'C14': ('cyclestats_check', None),
    'C15': ('container_check', None),
    'C18': ('config_check', None),
    'C17': ('kdt_check', None),
    'C06': ('options_check', None),
    'C07': ('mask_check', None),
    'C08': ('ensemble_check', None),
    'C20': ('logger_check', None),
    'C04': ('sift_check', 'C04'),
    'C01': ('sift_check', 'C01'),
    'C03': ('sift_check', 'C03'),
    'C05': ('extrema_check', None),
    'C10': ('spectra_check', 'C10'),
    'C11': ('spectra_check', 'C11'),
}


def main():
    ap = argparse.ArgumentParser()
    ap.add_argument('pid')
    ap.add_argument('--tier', default=None)
    ap.add_argument('--replay', default=None)
    a = ap.parse_args()
    if a.tier:
        os.environ['VERIF_TIER'] = a.tier
    if a.replay:
        os.environ['VERIF_REPLAY'] = a.replay
    if a.pid not in CHECKS:
        print('unknown property', a.pid)
        sys.exit(2)
    modname, arg = CHECKS[a.pid]
    mod = importlib.import_module('harness.mbv.checks.' + modname)
    mod.main(arg)


if __name__ == '__main__':
    try:
        main()
    except SystemExit:
        raise
    except BaseException:          # a crash of the machinery is never a verdict about the property
        import traceback
        traceback.print_exc()
        print('MACHINERY-ERROR uncaught exception in the harness', flush=True)
        sys.exit(2)
