"""Core of the model-based verification harness: run context, evidence, findings,
TLC invocation, record-set validation and batch trace validation.

Runs under /venv/bin/python (stdlib + numpy).  Nothing here imports emd.
"""
import atexit
import json
import os
import re
import shutil
import subprocess
import sys
import time

VERIF = os.path.dirname(os.path.dirname(os.path.dirname(os.path.abspath(__file__))))
SPEC = os.path.join(VERIF, 'spec')
REPO = os.environ.get('EMD_REPO', '/repo')
TLA_CP = '/opt/veriftools/tla/tla2tools.jar:/opt/veriftools/tla/CommunityModules-deps.jar'
NCPU = os.cpu_count() or 4


class MachineryError(Exception):
    """Something in the verification machinery itself failed (exit code 2)."""


def import_emd():
    """Import emd from REPO's *current working tree* and verify that it did."""
    if REPO not in sys.path:
        sys.path.insert(0, REPO)
    import warnings
    warnings.filterwarnings('ignore')
    import emd
    if not os.path.abspath(emd.__file__).startswith(os.path.abspath(REPO) + os.sep):
        raise MachineryError('emd imported from %s, not from %s' % (emd.__file__, REPO))
    import logging
    logging.getLogger('emd').setLevel(logging.CRITICAL + 1)
    return emd


class Ctx:
    """One run of one property's check."""

    def __init__(self, pid, tier=None, seed=None, level='model_checking'):
        self.pid = pid
        self.tier = tier or os.environ.get('VERIF_TIER') or 'quick'
        if self.tier not in ('quick', 'thorough'):
            self.tier = 'quick'
        self.seed = int(seed if seed is not None else os.environ.get('VERIF_SEED', '0') or 0)
        self.level = level
        self.t0 = time.time()
        self.work = os.path.join(VERIF, '.work', '%s-%d' % (pid, os.getpid()))
        os.makedirs(self.work, exist_ok=True)
        atexit.register(self._cleanup)
        self.cov = {'states': 0, 'transitions': 0, 'traces_validated_against_impl': 0,
                    'samples': [], 'evaluations': 0, 'distinct_nontrivial': 0,
                    'rule': '', 'tlc_runs': [], 'legs': {}}
        self.assumptions = []
        self.violations = []
        self.known_hits = []
        self.notes = []
        self.extras = []
        self._nontrivial = set()
        self.findings = load_findings()

    # -- bookkeeping -----------------------------------------------------
    @property
    def quick(self):
        return self.tier == 'quick'

    def pick(self, quick, thorough):
        return quick if self.quick else thorough

    def _cleanup(self):
        if not os.environ.get('VERIF_KEEP_WORK'):
            shutil.rmtree(self.work, ignore_errors=True)

    def sample(self, s, cap=6):
        if len(self.cov['samples']) < cap:
            self.cov['samples'].append(s)

    def nontrivial(self, key):
        self._nontrivial.add(key)

    def add_tlc(self, name, res):
        self.cov['states'] += res.get('distinct', 0)
        self.cov['transitions'] += res.get('generated', 0)
        self.cov['tlc_runs'].append({'name': name, 'distinct_states': res.get('distinct', 0),
                                     'states_generated': res.get('generated', 0),
                                     'wall_s': round(res.get('wall', 0), 2),
                                     'kind': res.get('kind', 'model')})

    def leg(self, name, **kw):
        self.cov['legs'].setdefault(name, {}).update(kw)

    def note(self, s):
        self.notes.append(s)
        print('NOTE', s, flush=True)

    def sample_first(self, items):
        """evidence sample: the first of `items`, if there is one (results of changed code may lack the kind asked for)"""
        items = list(items)
        if items:
            self.sample(items[0])

    def extra(self, what):
        """A mismatch found by a specification-growth leg, i.e. about behaviour OUTSIDE the statement of this property:
        recorded in the evidence and printed, but not a verdict (it must not raise an alarm for a property that holds)."""
        self.extras.append(what[:600])
        print('EXTRA-MISMATCH (behaviour outside the statement of %s, not a verdict): %s' % (self.pid, what[:400]), flush=True)

    # -- verdicts --------------------------------------------------------
    def violation(self, what, replay):
        """Report a violation unless it matches an *open* known finding."""
        for f in self.findings:
            if f['property'] == self.pid and f.get('status') == 'open' and _sig_match(f.get('signature'), replay):
                if f['id'] not in self.known_hits:
                    self.known_hits.append(f['id'])
                    print('KNOWN-FINDING: property=%s %s' % (self.pid, f['description']), flush=True)
                return False
        n = len(self.violations)
        if os.environ.get('VERIF_REPLAY') or os.environ.get('VERIF_NO_EVIDENCE'):
            print('VIOLATION property=%s replay=%s' % (self.pid, os.environ.get('VERIF_REPLAY') or '(not stored: trial run)'), flush=True)
            print('  ' + what[:400], flush=True)
            self.violations.append(what)
            return True
        d = os.path.join(VERIF, 'evidence', 'replay', self.pid)
        os.makedirs(d, exist_ok=True)
        path = os.path.join(d, 'v%03d.json' % n)
        if n < 25:
            with open(path, 'w') as f:
                json.dump({'property': self.pid, 'what': what, 'tier': self.tier, 'seed': self.seed,
                           'replay': replay}, f, indent=1, default=_jd)
            print('VIOLATION property=%s replay=%s' % (self.pid, path), flush=True)
            print('  ' + what[:400], flush=True)
        self.violations.append(what)
        return True

    def finish(self):
        self.cov['distinct_nontrivial'] = len(self._nontrivial)
        self.cov['known_findings_hit'] = self.known_hits
        self.cov['notes'] = self.notes
        if self.extras:
            self.cov['extra_mismatches_outside_the_property'] = self.extras[:20]
        # open known findings are always announced (they are findings, not alarms)
        for f in self.findings:
            if f['property'] == self.pid and f.get('status') == 'open' and f['id'] not in self.known_hits:
                print('KNOWN-FINDING: property=%s %s' % (self.pid, f['description']), flush=True)
        ev = {'property_id': self.pid, 'tier': self.tier, 'seed': self.seed, 'level': self.level,
              'coverage': self.cov, 'assumptions': self.assumptions,
              'wall_s': round(time.time() - self.t0, 2), 'violations': len(self.violations)}
        if not self.cov['samples']:
            self.cov['samples'] = ['(none recorded)']
        os.makedirs(os.path.join(VERIF, 'evidence'), exist_ok=True)
        if not os.environ.get('VERIF_REPLAY') and not os.environ.get('VERIF_NO_EVIDENCE'):      # replays / mutant trials are not evidence
            with open(os.path.join(VERIF, 'evidence', '%s.json' % self.pid), 'w') as f:
                json.dump(ev, f, indent=1, default=_jd)
        print('%s %s: states=%d transitions=%d impl_traces=%d evaluations=%d nontrivial=%d violations=%d wall=%.1fs' % (
            self.pid, self.tier, self.cov['states'], self.cov['transitions'],
            self.cov['traces_validated_against_impl'], self.cov['evaluations'],
            self.cov['distinct_nontrivial'], len(self.violations), time.time() - self.t0), flush=True)
        return 1 if self.violations else 0


def _jd(o):
    try:
        import numpy as np
        if isinstance(o, np.ndarray):
            return o.tolist()
        if isinstance(o, (np.integer,)):
            return int(o)
        if isinstance(o, (np.floating,)):
            return float(o)
        if isinstance(o, (np.bool_,)):
            return bool(o)
    except Exception:
        pass
    if isinstance(o, (set, frozenset)):
        return sorted(o)
    return repr(o)


def _sig_match(sig, replay):
    if not sig or not isinstance(replay, dict):
        return False
    return all(replay.get(k) == v for k, v in sig.items())


def load_findings():
    p = os.path.join(VERIF, 'known_findings.json')
    try:
        return json.load(open(p))['findings']
    except Exception:
        return []


# ---------------------------------------------------------------------------
# TLC

_RE_STATES = re.compile(r'(\d+) states generated, (\d+) distinct states found')
_RE_SIMSTATES = re.compile(r'The number of states generated: (\d+)')


def write_cfg(path, spec=None, init=None, next_=None, invariants=(), properties=(), constants=None,
              constraint=None, postcondition=None, view=None, deadlock=False, symmetry=None,
              action_constraint=None):
    lines = []
    if spec:
        lines.append('SPECIFICATION %s' % spec)
    else:
        lines.append('INIT %s' % init)
        lines.append('NEXT %s' % next_)
    for k, v in (constants or {}).items():
        lines.append('CONSTANT %s = %s' % (k, v) if not str(v).startswith('<-') else 'CONSTANT %s %s' % (k, v))
    for i in invariants:
        lines.append('INVARIANT %s' % i)
    for p in properties:
        lines.append('PROPERTY %s' % p)
    if constraint:
        lines.append('CONSTRAINT %s' % constraint)
    if action_constraint:
        lines.append('ACTION_CONSTRAINT %s' % action_constraint)
    if postcondition:
        lines.append('POSTCONDITION %s' % postcondition)
    if view:
        lines.append('VIEW %s' % view)
    if symmetry:
        lines.append('SYMMETRY %s' % symmetry)
    lines.append('CHECK_DEADLOCK %s' % ('TRUE' if deadlock else 'FALSE'))
    with open(path, 'w') as f:
        f.write('\n'.join(lines) + '\n')


def tla_value(v):
    """Python value -> TLA+ expression text (ints, bools, strings, sequences, sets, dicts->records)."""
    if isinstance(v, bool):
        return 'TRUE' if v else 'FALSE'
    if isinstance(v, int):
        return str(v)
    if isinstance(v, str):
        return '"%s"' % v
    if isinstance(v, (list, tuple)):
        return '<<' + ', '.join(tla_value(x) for x in v) + '>>'
    if isinstance(v, (set, frozenset)):
        return '{' + ', '.join(tla_value(x) for x in sorted(v, key=repr)) + '}'
    if isinstance(v, dict):
        return '[' + ', '.join('%s |-> %s' % (k, tla_value(x)) for k, x in v.items()) + ']'
    raise TypeError(v)


def run_tlc(ctx, module, cfg, workers=None, env=None, timeout=1800, coverage=False, simulate=None,
            depth=None, dump=None, seed=None, name=None, kind='model', deadlock=None, extra=()):
    """Run TLC on spec/<module>.tla with config file `cfg` (absolute path).

    Returns dict(ok, generated, distinct, out, wall, violated, prints)."""
    workers = workers or NCPU
    meta = os.path.join(ctx.work, 'meta-%s-%d' % (module, len(ctx.cov['tlc_runs'])) + '-%d' % int(time.time() * 1000 % 100000))
    cmd = ['java', '-XX:+UseParallelGC', '-Xss16m', '-cp', TLA_CP]
    e = dict(os.environ)
    for k, v in (env or {}).items():
        e[k] = str(v)
    cmd += ['tlc2.TLC', '-workers', str(workers), '-metadir', meta, '-noGenerateSpecTE', '-config', cfg]
    if coverage:
        cmd += ['-coverage', '1']
    if simulate:
        cmd += ['-simulate', simulate]
    if depth:
        cmd += ['-depth', str(depth)]
    if dump:
        cmd += ['-dump', dump[0], dump[1]] if isinstance(dump, (tuple, list)) else ['-dump', dump]
    if seed is not None:
        cmd += ['-seed', str(seed)]
    cmd += list(extra)
    cmd += [module]
    t = time.time()
    try:
        p = subprocess.run(cmd, cwd=SPEC, env=e, stdout=subprocess.PIPE, stderr=subprocess.STDOUT,
                           timeout=timeout, text=True)
        out = p.stdout
        rc = p.returncode
    except subprocess.TimeoutExpired as ex:
        out = (ex.stdout or b'').decode() if isinstance(ex.stdout, bytes) else (ex.stdout or '')
        rc = -9
    wall = time.time() - t
    shutil.rmtree(meta, ignore_errors=True)
    res = {'rc': rc, 'out': out, 'wall': wall, 'kind': kind, 'generated': 0, 'distinct': 0}
    m = None
    for m in _RE_STATES.finditer(out):
        pass
    if m:
        res['generated'], res['distinct'] = int(m.group(1)), int(m.group(2))
    else:
        m = _RE_SIMSTATES.search(out)
        if m:
            res['generated'] = res['distinct'] = int(m.group(1))
    res['violated'] = re.findall(r'Invariant (\S+) is violated', out) + \
        re.findall(r'Action property (\S+) is violated', out) + \
        (['<temporal>'] if 'Temporal properties were violated' in out else []) + \
        (['<postcondition>'] if re.search(r'[Pp]ost-?condition.*(violated|false|FALSE)', out) else []) + \
        (['<deadlock>'] if 'Deadlock reached' in out else [])
    res['error'] = bool(re.search(r'(?m)^Error: ', out)) and not res['violated']
    res['ok'] = (rc == 0) and not res['violated'] and not res['error']
    res['prints'] = out
    ctx.add_tlc(name or module, res)
    return res


def require_ok(res, what):
    if not res['ok']:
        tail = '\n'.join(res['out'].splitlines()[-40:])
        raise MachineryError('%s: TLC did not succeed (rc=%s violated=%s)\n%s' % (what, res['rc'], res['violated'], tail))


def expect_violation(ctx, module, cfg, inv, what, **kw):
    """Spec-mutation self-test: the given config MUST violate `inv`."""
    res = run_tlc(ctx, module, cfg, kind='selftest', **kw)
    if inv not in res['violated']:
        tail = '\n'.join(res['out'].splitlines()[-30:])
        raise MachineryError('self-test %s: expected %s to be violated, got %s\n%s' % (what, inv, res['violated'], tail))
    return res


def coverage_counts(out):
    """Parse '-coverage 1' output: {action name: count}."""
    c = {}
    for m in re.finditer(r'<(\w+) line \d+, col \d+ to line \d+, col \d+ of module (\w+)>: (\d+):(\d+)', out):
        c[m.group(1)] = max(c.get(m.group(1), 0), int(m.group(4)))
    return c


# ---------------------------------------------------------------------------
# Record-set validation (pure functions): every record is one TLC initial state.

NB_SEEDS = 64   # bucket seeds in the *Rec modules (see RInit there)
# NB: TLC pretty-prints long tuples over several lines ("<< "BADREC",\n   1,\n   "clause" >>"): whitespace tolerant
_RE_BAD = re.compile(r'<<\s*"BADREC",\s*(\d+),\s*"([^"]*)"')
_RE_EVALERR = re.compile(r'Error: Evaluating invariant \w+ failed\.[\s\S]*?\bri = (\d+)')


def validate_records(ctx, module, records, cfgname=None, constants=None, invariant='RecOK',
                     name=None, chunk=60000, workers=None, init='RInit', next_='RNext'):
    """Write `records` (list of JSON-able dicts of ints/strings/lists) and let TLC evaluate the
    module's per-record predicate on each.  The module must define
        Recs == JsonDeserialize(IOEnv.RECS_FILE),  VARIABLE ri,
        RInit == ri \\in 1..Len(Recs),  RNext == UNCHANGED ri,
        RecOK == ... prints <<"BADREC", ri, "clause">> and is FALSE-safe (always returns TRUE)
    Returns list of (record, clause) that failed."""
    bad = []
    nrec = 0
    for c0 in range(0, len(records), chunk):
        part = list(records[c0:c0 + chunk])
        fn = os.path.join(ctx.work, 'recs-%s-%d.json' % (module, c0))
        cfg = os.path.join(ctx.work, '%s-rec.cfg' % module)
        write_cfg(cfg, init=init, next_=next_, invariants=[invariant], constants=constants)
        for attempt in range(6):
            with open(fn, 'w') as f:
                json.dump(part, f, separators=(',', ':'), default=_jd)
            res = run_tlc(ctx, module, cfg, env={'RECS_FILE': fn}, name=(name or module) + ':records',
                          kind='records', workers=workers)
            # A record whose VALUE has the wrong shape for the specification (e.g. a number where a sequence is expected:
            # the real routine returned something of another kind) makes TLC stop with an evaluation error on that
            # record.  That is a disagreement between code and specification, not a failure of the machinery: the
            # record is reported like any other bad record, taken out, and the rest of the chunk is validated.
            m = _RE_EVALERR.search(res['out']) if res['rc'] != 0 else None
            if m and attempt < 5 and 0 < int(m.group(1)) <= len(part):
                bad.append((part.pop(int(m.group(1)) - 1), 'result_has_another_shape_than_the_specification_value'))
                continue
            break
        if res['rc'] != 0 and bad and _RE_EVALERR.search(res['out']):
            os.unlink(fn)
            break            # several such records: enough is reported, the remainder of this run is not validated
        if res['rc'] != 0 or res['error'] or res['distinct'] != len(part) + NB_SEEDS:
            tail = '\n'.join(res['out'].splitlines()[-40:])
            raise MachineryError('record validation %s: rc=%s distinct=%s expected=%s\n%s' % (
                module, res['rc'], res['distinct'], len(part) + NB_SEEDS, tail))
        nm = 0
        for m in _RE_BAD.finditer(res['out']):
            bad.append((part[int(m.group(1)) - 1], m.group(2)))
            nm += 1
        if nm != res['out'].count('"BADREC"'):
            raise MachineryError('record validation %s: %d BADREC lines printed but %d parsed' % (module, res['out'].count('"BADREC"'), nm))
        nrec += len(part)
        os.unlink(fn)
    ctx.cov['traces_validated_against_impl'] += nrec
    ctx.cov['evaluations'] += nrec
    return bad


# ---------------------------------------------------------------------------
# Batch trace validation (stateful): traces = list of event lists

_RE_FAIL = re.compile(r'<<\s*"FAILCLAUSE",\s*(\d+),\s*(\d+),\s*"([^"]*)"')
_RE_REJ = re.compile(r'<<\s*"REJECTED",\s*(\d+),\s*(\d+)\s*>>')


def validate_traces(ctx, module, traces, constants=None, name=None, spec='TraceSpec', chunk=4000,
                    invariants=(), timeout=1800):
    """Each trace is a list of event dicts.  The module must define
        Traces == JsonDeserialize(IOEnv.TRACE_FILE)   (sequence of sequences of events)
        VARIABLES tid, l, ... ; TraceSpec; POSTCONDITION TraceAccepted which prints
        <<"REJECTED", tid, l>> for every trace whose cursor never reached Len+1,
        and Clause(name, cond) printing <<"FAILCLAUSE", tid, l, name>>.
    Returns list of (trace_index, l_reached, clause_names)."""
    rejected = []
    n = 0
    for c0 in range(0, len(traces), chunk):
        part = traces[c0:c0 + chunk]
        fn = os.path.join(ctx.work, 'traces-%s-%d.json' % (module, c0))
        with open(fn, 'w') as f:
            json.dump(part, f, separators=(',', ':'), default=_jd)
        cfg = os.path.join(ctx.work, '%s-trace.cfg' % module)
        write_cfg(cfg, spec=spec, constants=constants, invariants=invariants)
        res = run_tlc(ctx, module, cfg, env={'TRACE_FILE': fn}, workers=1,
                      name=(name or module) + ':traces', kind='trace', timeout=timeout)
        if res['error'] or res['rc'] not in (0, 1, 12, 13) or 'TRACESUMMARY' not in res['out']:
            tail = '\n'.join(res['out'].splitlines()[-40:])
            raise MachineryError('trace validation %s failed to run: rc=%s\n%s' % (module, res['rc'], tail))
        if len(_RE_FAIL.findall(res['out'])) != res['out'].count('"FAILCLAUSE"') or len(_RE_REJ.findall(res['out'])) != res['out'].count('"REJECTED"'):
            raise MachineryError('trace validation %s: could not parse every FAILCLAUSE / REJECTED line' % module)
        for m in re.finditer(r'<<\s*"TRACESUMMARY",\s*(\d+),\s*(\d+)(?:,\s*(\d+))?', res['out']):
            ctx.cov.setdefault('trace_summaries', []).append({'module': module, 'traces': int(m.group(1)), 'rejected': int(m.group(2)),
                                                              'excluded_by_guard_band': int(m.group(3)) if m.group(3) else 0})
        fails = {}
        for m in _RE_FAIL.finditer(res['out']):
            fails.setdefault(int(m.group(1)), []).append((int(m.group(2)), m.group(3)))
        for m in _RE_REJ.finditer(res['out']):
            t, l = int(m.group(1)), int(m.group(2))
            cl = sorted(set(c for (ll, c) in fails.get(t, []) if ll == l)) or ['<no enabled action>']
            rejected.append((c0 + t - 1, l, cl))
        n += len(part)
        os.unlink(fn)
    ctx.cov['traces_validated_against_impl'] += n - len(rejected)
    ctx.cov['evaluations'] += n
    return rejected


def main_wrap(fn):
    """Run a check's main(ctx-less) function with the exit-code convention."""
    try:
        rc = fn()
    except MachineryError as e:
        print('MACHINERY-ERROR', e, flush=True)
        sys.exit(2)
    except Exception:
        import traceback
        traceback.print_exc()
        print('MACHINERY-ERROR uncaught exception in the harness', flush=True)
        sys.exit(2)
    sys.exit(rc)


# ---------------------------------------------------------------------------
# Watchdog for calls into the code under test (a mutant may loop forever)

class CallTimeout(Exception):
    pass


def _alarm(signum, frame):
    raise CallTimeout()


_ntimeouts = 0


def guarded(fn, *a, _timeout=2.0, **k):
    """Call fn(*a, **k) under an interval timer; return the result, or the string
    'raise:<ExceptionType>' (which never equals a specification value)."""
    import signal
    global _ntimeouts
    if _ntimeouts >= 8:
        # the code under test hangs again and again (each hang is already a reported mismatch):
        # stop spending the watchdog interval on every further call in this process
        return 'raise:Timeout'
    # Two timers: CPU time of this process (a spinning loop is caught after `_timeout` seconds of its own work, however
    # heavily the machine is loaded - wall-clock alone would raise false alarms on a busy box) and, as a fall-back for a
    # call that blocks without using the CPU, wall-clock time with a generous factor.
    old = signal.signal(signal.SIGALRM, _alarm)
    oldp = signal.signal(signal.SIGPROF, _alarm)
    signal.setitimer(signal.ITIMER_PROF, _timeout)
    signal.setitimer(signal.ITIMER_REAL, max(30.0, 10 * _timeout))
    try:
        return fn(*a, **k)
    except CallTimeout:
        _ntimeouts += 1
        return 'raise:Timeout'
    except Exception as e:
        return 'raise:' + type(e).__name__
    finally:
        signal.setitimer(signal.ITIMER_PROF, 0)
        signal.setitimer(signal.ITIMER_REAL, 0)
        signal.signal(signal.SIGALRM, old)
        signal.signal(signal.SIGPROF, oldp)


def apalache(ctx, module, obligations, what, cinit=None):
    """Discharge proof obligations with Apalache (each: list of command-line arguments).  Recorded in the evidence;
    an obligation that is not discharged is a machinery error (the specification is wrong, not the code)."""
    import shutil
    import subprocess
    if not shutil.which('apalache-mc'):
        ctx.note('apalache-mc not found: %s not re-checked in this run' % what)
        return
    out_dir = os.path.join(ctx.work, 'apalache-' + module)
    res = []
    for args in obligations:
        t = time.time()
        cmd = ['apalache-mc', 'check'] + ([('--cinit=' + cinit)] if cinit else []) + args + ['--out-dir=' + out_dir, module + '.tla']
        try:
            p = subprocess.run(cmd, cwd=SPEC, stdout=subprocess.PIPE, stderr=subprocess.STDOUT, text=True, timeout=600)
            ok = 'EXITCODE: OK' in p.stdout
        except subprocess.TimeoutExpired:
            ok = False
        res.append({'args': args, 'ok': ok, 'wall_s': round(time.time() - t, 1)})
        if not ok:
            raise MachineryError('Apalache did not discharge %s of %s' % (args, module))
    shutil.rmtree(out_dir, ignore_errors=True)
    ctx.leg('apalache-' + module, result=what, obligations=res)


def states_for(states, histories):
    """the part of a {json(history prefix): state} table that replaying `histories` needs (workers get their share only:
    the whole table, pickled once per worker, is what exhausts memory in the thorough tier)"""
    out = {}
    for h in histories:
        for i in range(len(h)):
            k = json.dumps(h[:i + 1])
            if k in states:
                out[k] = states[k]
    return out


def pmap(fn, jobs, workers=None):
    """Parallel map over forked NON-daemonic worker processes (the code under test creates its own
    multiprocessing pools, which daemonic pool workers are not allowed to do)."""
    import concurrent.futures as cf
    import multiprocessing as mp
    with cf.ProcessPoolExecutor(max_workers=workers or NCPU, mp_context=mp.get_context('fork')) as ex:
        return list(ex.map(fn, jobs))
