"""pytest plugin: run the repository's own tests with the get_next_imf recorder switched on and dump every recorded
extraction (SiftLoopTrace events) to the file named by EMD_TRACE_OUT.  Used as
    PYTHONPATH=/verif python -m pytest -p harness.mbv.pytest_trace <repo>/emd/tests/test_sift.py
The tests become drivers: their executions are validated by TLC although their own assertions only look at shapes.
(Worker pools are replaced by an in-process pool so that the extractions of the masked and ensemble sifts are seen too.)"""
import json
import os

_state = {}


def pytest_sessionstart(session):
    from harness.mbv import core
    from harness.mbv.instrument import Recorder, UseInlinePool
    emd = core.import_emd()
    # worker pools run their jobs in this process (the recorder's wrappers are bound methods and cannot be pickled;
    # in-process jobs are also the ones the recorder can see)
    pool = UseInlinePool(emd)
    pool.__enter__()
    rec = Recorder(emd, check_env=True)
    rec.__enter__()
    _state['rec'] = rec
    _state['pool'] = pool


def pytest_sessionfinish(session, exitstatus):
    rec = _state.get('rec')
    if rec is None:
        return
    rec.__exit__(None, None, None)
    _state['pool'].__exit__(None, None, None)
    out = os.environ.get('EMD_TRACE_OUT')
    if out:
        traces = [ev for ev, me in zip(rec.traces, rec.meta) if me['traceable']]
        with open(out, 'w') as f:
            json.dump({'traces': traces, 'all': len(rec.traces)}, f)
