#!/bin/bash
# Offline setup: parse every TLA+ module, byte-compile the harness.
set -e
cd "$(dirname "$0")"
mkdir -p evidence .work
if ls spec/*.tla >/dev/null 2>&1; then
  for f in spec/*.tla; do
    (cd spec && tla-sany "$(basename "$f")" >/dev/null 2>&1) || { echo "SANY failed on $f"; (cd spec && tla-sany "$(basename "$f")" | tail -20); exit 1; }
  done
fi
/venv/bin/python -m compileall -q harness >/dev/null 2>&1 || true
echo setup ok
