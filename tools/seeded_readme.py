#!/usr/bin/env python3
"""Write seeded/README.md and update every seeded/<id>/meta.json from the matrix files."""
import json, os, glob
V = os.path.dirname(os.path.dirname(os.path.abspath(__file__)))
rows = {}
for f in ('MATRIX.tsv', 'MATRIX_round2.tsv', 'MATRIX_round3.tsv', 'MATRIX_round4.tsv', 'MATRIX_round5.tsv', 'MATRIX_all.tsv', 'MATRIX_round6.tsv', 'MATRIX_round7.tsv', 'MATRIX_final_subset.tsv', 'MATRIX_round8.tsv'):
    p = os.path.join(V, 'seeded', f)
    if os.path.exists(p):
        for line in open(p):
            q = line.rstrip('\n').split('\t')
            if len(q) >= 3:
                rows[q[0]] = q
out = ['# Seeded changes', '',
       'Each directory holds `patch.diff` (applies to the current /repo HEAD), `demo.py <checkout>` (exit 1 with the change, 0 without) and `meta.json`.',
       'Written by fresh sub-agents that saw only the text of one property (round 1), the same text plus the hint "avoid the most central line" (round 2: `-r2mutN`), '
       'or plus the hint "two cooperating edits, a multi-step call history, a rarely used option / entry point, a worker count, a value exactly on a boundary" (rounds 3 and 4: `-r3mutN`, `-r4mutN`; ten properties each), or plus the hint "object identity and lifetime, dtype and memory layout, order of calls, exception paths, rarely used option values, ties, exact zeros" (round 5: `-r5mutN`, all twenty properties), or a list of everything tried before plus new suggestions (rounds 6 and 7: `-r6mutN`, `-r7mutN`, ten properties each).',
       'A patch that stopped applying because a later `fix:` commit rewrote the lines it touches was re-based (original kept as `patch.original.diff`, see `meta.json`).',
       'Result of `tools/matrix.sh` (the property\'s quick check run against a scratch worktree with the change applied):', '',
       '| id | property | quick check | what was changed | first clause that fired |', '|---|---|---|---|---|']
for d in sorted(glob.glob(os.path.join(V, 'seeded', 'C*-*mut*'))):
    i = os.path.basename(d)
    mp = os.path.join(d, 'meta.json')
    m = json.load(open(mp))
    r = rows.get(i)
    if r:
        m['matrix'] = {'check': r[1], 'result': r[2], 'first_violation': r[3] if len(r) > 3 else ''}
        json.dump(m, open(mp, 'w'), indent=1)
    res = r[2] if r else 'not run'
    clause = (r[3] if r and len(r) > 3 else '').replace('|', '/')[:110]
    out.append('| %s | %s | %s | %s | %s |' % (i, i.split('-')[0], res, str(m.get('summary', ''))[:140].replace('|', '/').replace('\n', ' '), clause))
open(os.path.join(V, 'seeded', 'README.md'), 'w').write('\n'.join(out) + '\n')
print(len(rows), 'rows')
