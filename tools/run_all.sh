#!/bin/bash
# run_all.sh [tier] [seed] : run every registered check on the current tree; prints one line per check.
TIER=${1:-quick}; SEED=${2:-0}
cd /verif
for c in C01 C02 C03 C04 C05 C06 C07 C08 C09 C10 C11 C12 C13 C14 C15 C16 C17 C18 C19 C20; do
  out=$(VERIF_SEED=$SEED ./check $c --tier $TIER 2>&1); rc=$?
  echo "rc=$rc $(echo "$out" | grep -v KNOWN-FINDING | tail -1)"
  [ $rc != 0 ] && echo "$out" | grep -E "VIOLATION|MACHINERY|^  " | head -5
done
