#!/bin/bash
# confirm_seeded.sh <Cxx> <mutN> : confirm a sub-agent's seeded change in a fresh scratch worktree
# (patch applies, suite passes, demo FAILs with the patch and PASSes without) and, if confirmed,
# store it as /verif/seeded/<Cxx>-<mutN>/ .  The scratch worktree is removed afterwards.
set -u
P=$1; M=$2; SRC=/tmp/seed8_out/$P/$M; WT=/var/tmp/confirm_${P}_${M}_$$
git -C /repo worktree add -q --detach "$WT" HEAD || exit 2
cleanup(){ git -C /repo worktree remove --force "$WT" 2>/dev/null; rm -rf "$WT"; }
trap cleanup EXIT
res="ok"
( cd "$WT" && timeout 120 /venv/bin/python "$SRC/demo.py" "$WT" >/dev/null 2>&1 ); c0=$?
git -C "$WT" apply "$SRC/patch.diff" || res="patch-does-not-apply"
t=$( cd "$WT" && /venv/bin/python -m pytest -q -p no:cacheprovider --timeout=900 emd 2>&1 | tail -1 )
( cd "$WT" && timeout 300 /venv/bin/python "$SRC/demo.py" "$WT" >/dev/null 2>&1 ); c1=$?
echo "$P $M clean_demo_exit=$c0 mutated_demo_exit=$c1 tests: $t"
case "$t" in *"38 passed"*) ;; *) res="tests-fail";; esac
[ "$c0" = 0 ] || res="demo-fails-on-clean"
[ "$c1" = 1 ] || res="demo-does-not-fail-on-mutant"
if [ "$res" = ok ]; then
  D=/verif/seeded/$P-r8$M; mkdir -p "$D"; cp "$SRC/patch.diff" "$SRC/demo.py" "$D/"
  /venv/bin/python - "$SRC/meta.json" "$D/meta.json" "$t" <<'PY'
import json,sys
m=json.load(open(sys.argv[1]))
m['confirmed']={'by':'tools/confirm_seeded.sh in a fresh scratch worktree of /repo HEAD',
 'ran':['git apply patch.diff','pytest -q emd  -> '+sys.argv[3],'demo.py <worktree> with patch -> exit 1','demo.py <worktree> without patch -> exit 0']}
m['origin']='fresh sub-agent given only the property text and its own scratch worktree'
json.dump(m,open(sys.argv[2],'w'),indent=1)
PY
  echo "CONFIRMED $P $M"
else
  echo "REJECTED $P $M: $res"
fi
