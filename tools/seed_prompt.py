#!/usr/bin/env python3
"""Print the prompt given to a fresh sub-agent that is asked to break one property.
Only the property text and a scratch worktree are given (nothing from /verif)."""
import json, sys
pid = sys.argv[1]
for l in open('/verif/properties.jsonl'):
    p = json.loads(l)
    if p['id'] == pid:
        break
wt = '/tmp/seed/%s' % pid
out = '/tmp/seed_out/%s' % pid
print(f"""You are helping to evaluate a verification framework by *seeding realistic bugs* into a Python library.

The library is `emd` (Empirical Mode Decomposition: sift variants, Hilbert-Huang / holo spectra, single-cycle analysis; numpy/scipy). You have your own scratch git worktree of it at {wt} (a detached checkout). Work ONLY inside {wt} and write your results to {out}/ . Do not touch /repo or /verif, and do not read anything under /verif.

Environment notes: use /venv/bin/python. There is no network. The package is dev-installed from /repo, so to import YOUR copy always run with `PYTHONPATH={wt}` (and check `emd.__file__` starts with {wt}). The existing test-suite is run with:
  cd {wt} && /venv/bin/python -m pytest -q -p no:cacheprovider --timeout=900 emd
(38 tests, all pass on the unmodified worktree; ~20 s).

Here is a semantic property of the library that should always hold:

  Title: {p['title']}
  Statement: {p['statement']}
  Quantified over: {p['quantifier']['text']}
  Relevant files: {', '.join(p['anchors']['files'])}

YOUR TASK: produce TWO independent, realistic source changes to the library (each a separate small patch against the unmodified worktree; different mechanisms / different code sites) such that, for each one:
  1. the library still imports and the existing test-suite above still passes completely (38 passed);
  2. the change BREAKS the property above (for some inputs / configurations / schedules / call histories);
  3. the breakage needs something *specific* to manifest — an unusual input, a particular option combination, a particular number of worker processes or interleaving, a multi-step sequence of operations, an edge case such as a value exactly on a boundary, or two cooperating sites that each look fine alone. It must NOT be something that ordinary use would expose at once (e.g. do not simply make the main function return garbage for all inputs).
  4. it looks like a plausible regression a maintainer could introduce (refactoring slip, off-by-one, wrong comparison, dropped/shadowed keyword, stale cache, wrong default, 'optimisation' that skips a case, etc.), not sabotage with magic constants.

For each change write into {out}/ :
  - `mutN/patch.diff`  : output of `git -C {wt} diff` for that change alone (N = 1, 2). It must apply cleanly with `git apply` to the unmodified checkout.
  - `mutN/demo.py`     : a small self-contained program that takes the path of an emd checkout as argv[1] (it must do `sys.path.insert(0, sys.argv[1])` before importing emd), exits 0 and prints PASS on the unmodified code, and exits 1 and prints FAIL (with a short explanation of what was observed) on the changed code. Keep it deterministic (seed any randomness) and fast (< 60 s).
  - `mutN/meta.json`   : {{"property": "{pid}", "summary": "...what was changed...", "needs": "...what specific input/config/schedule/history is needed for it to manifest...", "files": [...], "tests_pass": true}}

Procedure for each change: edit the worktree; run the test-suite (must be 38 passed); run your demo against the changed worktree (must FAIL) ; save the diff; then `git -C {wt} checkout -- .` to undo it, and run the demo against the clean worktree (must PASS). Make the second change the same way starting from the clean worktree. Leave the worktree clean at the end.

Finish by replying with a short summary (what each change does, how it manifests, and confirmation of the three runs for each).""")
