#!/usr/bin/env python3
"""Round-8 prompt: ONE change per sub-agent, short deadline, new directions.  Only the property text and a scratch
worktree are given (nothing from /verif)."""
import json, sys
pid = sys.argv[1]
mn = sys.argv[2] if len(sys.argv) > 2 else '1'
for l in open('/verif/properties.jsonl'):
    p = json.loads(l)
    if p['id'] == pid:
        break
wt = '/tmp/seed8/%s_%s' % (pid, mn) if mn != '1' else '/tmp/seed8/%s' % pid
out = '/tmp/seed8_out/%s' % pid
print(f"""You are helping to evaluate a verification framework by *seeding a realistic bug* into a Python library. You have about 12 minutes: be quick and decisive.

The library is `emd` (Empirical Mode Decomposition: sift variants, Hilbert-Huang / holo spectra, single-cycle analysis; numpy/scipy). You have your own scratch git worktree of it at {wt} (a detached checkout). Work ONLY inside {wt} and write your results to {out}/ . Do not touch /repo or /verif, and do not read anything under /verif.

Environment notes: use /venv/bin/python. There is no network. The package is dev-installed from /repo, so to import YOUR copy always run with `PYTHONPATH={wt}` (and check `emd.__file__` starts with {wt}). The existing test-suite is run with:
  cd {wt} && /venv/bin/python -m pytest -q -p no:cacheprovider --timeout=900 emd
(38 tests, all pass on the unmodified worktree; ~20 s).

Here is a semantic property of the library that should always hold:

  Title: {p['title']}
  Statement: {p['statement']}
  Quantified over: {p['quantifier']['text']}
  Relevant files: {', '.join(p['anchors']['files'])}

YOUR TASK: produce ONE realistic source change to the library (a small patch against the unmodified worktree) such that:
  1. the library still imports and the existing test-suite above still passes completely (38 passed);
  2. the change BREAKS the property above (for some inputs / configurations / schedules / call histories);
  3. the breakage needs something *specific* to manifest — an unusual input, a particular option combination, a particular number of worker processes or interleaving, a multi-step sequence of operations, an edge case such as a value exactly on a boundary, or two cooperating sites that each look fine alone. It must NOT be something that ordinary use would expose at once.
  4. it looks like a plausible regression a maintainer could introduce, not sabotage with magic constants.

Many obvious mechanisms have been tried already (off-by-one at array ends, flipped comparisons, dropped keywords, absolute tolerances, lru_cache, mutable defaults, int dtypes, tiny/huge units). Prefer something different, for example: behaviour that depends on an input's LENGTH parity or being a power of two; on the NUMBER of components/cycles/columns reaching a particular count (exactly 1, exactly the cap, more than 9); on the ORDER of two calls or of entries in a dict/list argument; a state left behind on the error path; a value that is only wrong the SECOND time an object is used; interplay of two options that are each fine alone; NaN / inf / negative-zero / duplicate values; a boundary shared by two bins/cycles; aliasing between an output and an input or between two outputs; an exception type/silent fallback swapped; a less common public entry point or option value (look at the whole public API of the relevant files, not just the main function).

Write into {out}/ :
  - `mut{mn}/patch.diff`  : output of `git -C {wt} diff`. It must apply cleanly with `git apply` to the unmodified checkout.
  - `mut{mn}/demo.py`     : a small self-contained program that takes the path of an emd checkout as argv[1] (it must do `sys.path.insert(0, sys.argv[1])` before importing emd), exits 0 and prints PASS on the unmodified code, and exits 1 and prints FAIL (with a short explanation of what was observed) on the changed code. Deterministic (seed any randomness) and fast (< 60 s).
  - `mut{mn}/meta.json`   : {{"property": "{pid}", "summary": "...what was changed...", "needs": "...what specific input/config/schedule/history is needed for it to manifest...", "files": [...], "tests_pass": true}}

Procedure: edit the worktree; run the test-suite (must be 38 passed); run your demo against the changed worktree (must FAIL); save the diff; then `git -C {wt} checkout -- .` to undo it, and run the demo against the clean worktree (must PASS). Leave the worktree clean at the end.

Finish by replying with a two-line summary.""")
