#!/venv/bin/python
"""boundary_sweep.py [--jobs N] [--only FILE_SUBSTR] : a systematic hunt for blind spots of the checks.

For every relational comparison (<, <=, >, >=) inside a function of emd that is anchored to a listed property,
the boundary is flipped (< <-> <=, > <-> >=) in a scratch worktree of /repo; if the repository's own test-suite still
passes, the quick check(s) of the properties mapped to that function are run against the worktree (EMD_REPO, no
evidence).  Output: /verif/seeded/BOUNDARY_SWEEP.tsv with one line per site:
    file:line  function  original -> flipped  tests  check results ...  verdict
verdict = killed-by-tests | DETECTED | SURVIVED | n/a.  Survivors are either equivalent changes (the boundary value
cannot occur / does not matter) or gaps; they are triaged by hand in DESIGN.md section 10.3.
Nothing is written to /repo.  Scratch worktrees live under /var/tmp and are removed.
"""
import ast
import os
import subprocess
import sys
from concurrent.futures import ThreadPoolExecutor

REPO = '/repo'
FILES = ['emd/sift.py', 'emd/cycles.py', 'emd/_cycles_support.py', 'emd/spectra.py', 'emd/utils.py', 'emd/support.py', 'emd/logger.py']
SWAP = {'min': 'max', 'max': 'min', 'argmin': 'argmax', 'argmax': 'argmin', 'floor': 'ceil', 'ceil': 'floor', 'any': 'all', 'all': 'any',
        'cumsum': 'cumprod', 'sum': 'mean', 'mean': 'sum'}
FLIP = {ast.Lt: ('<', '<='), ast.LtE: ('<=', '<'), ast.Gt: ('>', '>='), ast.GtE: ('>=', '>')}
MAP = {
    'get_next_imf': ['C04'], 'sd_stop': ['C04'], 'rilling_stop': ['C04'], 'fixed_stop': ['C04'], 'energy_stop': ['C04'], '_energy_difference': ['C04'],
    'sift': ['C01', 'C03'], 'ensemble_sift': ['C08', 'C03'], 'complete_ensemble_sift': ['C08', 'C03'], '_sift_with_noise': ['C08'],
    'get_next_imf_mask': ['C07'], 'mask_sift': ['C07', 'C03'], 'get_mask_freqs': ['C07'],
    'sift_second_layer': ['C03'], 'mask_sift_second_layer': ['C03'],
    'get_padded_extrema': ['C05', 'C04'], '_find_extrema': ['C05'], 'compute_parabolic_extrema': ['C05'], 'interp_envelope': ['C05'],
    '_run_scipy_interp': ['C05'], 'zero_crossing_count': ['C07'], 'is_imf': ['C05'],
    'get_cycle_vector': ['C12', 'C13'], 'is_good': ['C13'], 'get_subset_vector': ['C16'], 'get_chain_vector': ['C16'],
    'get_cycle_stat': ['C14'], 'get_chain_stat': ['C14'], 'phase_align': ['C14'], 'bin_by_phase': ['C14'], 'kdt_match': ['C17'], '_unique_inds': ['C17'],
    'frequency_transform': ['C09'], 'phase_from_complex_signal': ['C09'], 'freq_from_phase': ['C09'], 'phase_from_freq': ['C09'],
    'quadrature_transform': ['C09'], 'direct_quadrature': ['C09'], 'phase_angle': ['C09'], 'amplitude_normalise': ['C09'], 'wrap_phase': ['C09'],
    'hilberthuang': ['C10'], 'hilberthuang_1d': ['C10'], 'holospectrum': ['C11'],
    'ensure_equal_dims': ['C19'], 'ensure_vector': ['C19'], 'ensure_1d_with_singleton': ['C19'], 'ensure_2d': ['C19'],
}
CLASSMAP = {'Cycles': ['C15', 'C13'], 'IterateCycles': ['C16', 'C14'], 'SiftConfig': ['C18']}
FILEMAP = {'emd/_cycles_support.py': ['C16', 'C14', 'C15'], 'emd/logger.py': ['C20']}


def context(node, parents):
    fn = cls = None
    q = node
    while q in parents:
        q = parents[q]
        if isinstance(q, (ast.FunctionDef, ast.AsyncFunctionDef)) and fn is None:
            fn = q.name
        if isinstance(q, ast.ClassDef) and cls is None:
            cls = q.name
    return fn, cls


def more_sites(op):
    """op = offby1 : `e + 1` / `e - 1` -> `e`;  dropkw : a pass-through keyword argument `name=name` (or `name=self.name`) is
    dropped from a call;  nocopy : `e.copy()` -> `e`."""
    out = []
    for f in FILES:
        src = open(os.path.join(REPO, f)).read()
        lines = src.split('\n')
        tree = ast.parse(src)
        parents = {}
        for node in ast.walk(tree):
            for ch in ast.iter_child_nodes(node):
                parents[ch] = node
        for node in ast.walk(tree):
            edit = None
            if op == 'offby1' and isinstance(node, ast.BinOp) and isinstance(node.op, (ast.Add, ast.Sub)) and \
                    isinstance(node.right, ast.Constant) and node.right.value == 1 and type(node.right.value) is int and \
                    node.lineno == node.end_lineno:
                edit = (node.lineno, node.left.end_col_offset, node.end_col_offset, '')
            elif op == 'nocopy' and isinstance(node, ast.Call) and isinstance(node.func, ast.Attribute) and node.func.attr == 'copy' and \
                    not node.args and not node.keywords and node.lineno == node.end_lineno:
                edit = (node.lineno, node.func.value.end_col_offset, node.end_col_offset, '')
            elif op == 'dropkw' and isinstance(node, ast.Call):
                for kw in node.keywords:
                    v = kw.value
                    name = v.id if isinstance(v, ast.Name) else (v.attr if isinstance(v, ast.Attribute) else None)
                    if kw.arg and name == kw.arg and v.lineno == v.end_lineno:
                        ln = v.lineno
                        line = lines[ln - 1]
                        start = line.rfind(kw.arg, 0, v.col_offset)
                        end = v.end_col_offset
                        # remove a following ", " or a preceding ", "
                        rest = line[end:]
                        if rest.startswith(', '):
                            end += 2
                        elif rest.startswith(','):
                            end += 1
                        elif line[:start].rstrip().endswith(','):
                            start = len(line[:start].rstrip()) - 1
                        fn, cls = context(node, parents)
                        props = MAP.get(fn) or CLASSMAP.get(cls) or FILEMAP.get(f)
                        if props and kw.arg in ('imf_opts', 'envelope_opts', 'extrema_opts') and f == 'emd/sift.py':
                            props = ['C06'] + [q for q in props if q != 'C06']
                        if props and start >= 0:
                            out.append({'file': f, 'line': ln, 'col': start, 'old': line[start:end], 'new': '', 'fn': (cls + '.' if cls else '') + (fn or '?'),
                                        'props': props, 'text': line.strip()[:90]})
                continue
            if op == 'axis' and isinstance(node, ast.keyword) and node.arg == 'axis' and isinstance(node.value, ast.Constant) and node.value.value in (0, 1):
                v = node.value
                edit = (v.lineno, v.col_offset, v.end_col_offset, str(1 - v.value.real if False else 1 - v.value))
            elif op == 'minmax' and isinstance(node, ast.Attribute) and node.attr in SWAP and node.lineno == node.end_lineno:
                edit = (node.end_lineno, node.end_col_offset - len(node.attr), node.end_col_offset, SWAP[node.attr])
            elif op == 'eqneq' and isinstance(node, ast.Compare) and len(node.ops) == 1 and isinstance(node.ops[0], (ast.Eq, ast.NotEq)) and \
                    node.left.end_lineno == node.comparators[0].lineno:
                ln = node.left.end_lineno
                seg = lines[ln - 1][node.left.end_col_offset:node.comparators[0].col_offset]
                old_ = '==' if isinstance(node.ops[0], ast.Eq) else '!='
                if seg.strip() == old_:
                    c0 = node.left.end_col_offset + seg.index(old_)
                    edit = (ln, c0, c0 + 2, '!=' if old_ == '==' else '==')
            elif op == 'andor' and isinstance(node, ast.BoolOp) and len(node.values) == 2 and node.values[0].end_lineno == node.values[1].lineno:
                ln = node.values[0].end_lineno
                seg = lines[ln - 1][node.values[0].end_col_offset:node.values[1].col_offset]
                old_ = 'and' if isinstance(node.op, ast.And) else 'or'
                if seg.strip() == old_:
                    c0 = node.values[0].end_col_offset + seg.index(old_)
                    edit = (ln, c0, c0 + len(old_), 'or' if old_ == 'and' else 'and')
            if edit is None:
                continue
            fn, cls = context(node, parents)
            props = MAP.get(fn) or CLASSMAP.get(cls) or FILEMAP.get(f)
            if not props:
                continue
            ln, a, b, new = edit
            out.append({'file': f, 'line': ln, 'col': a, 'old': lines[ln - 1][a:b], 'new': new, 'fn': (cls + '.' if cls else '') + (fn or '?'), 'props': props,
                        'text': lines[ln - 1].strip()[:90]})
    return out


def sites():
    out = []
    for f in FILES:
        src = open(os.path.join(REPO, f)).read()
        lines = src.split('\n')
        tree = ast.parse(src)
        parents = {}
        for node in ast.walk(tree):
            for ch in ast.iter_child_nodes(node):
                parents[ch] = node
        for node in ast.walk(tree):
            if not isinstance(node, ast.Compare) or len(node.ops) != 1 or type(node.ops[0]) not in FLIP:
                continue
            fn = cls = None
            q = node
            while q in parents:
                q = parents[q]
                if isinstance(q, (ast.FunctionDef, ast.AsyncFunctionDef)) and fn is None:
                    fn = q.name
                if isinstance(q, ast.ClassDef) and cls is None:
                    cls = q.name
            props = MAP.get(fn) or CLASSMAP.get(cls) or FILEMAP.get(f)
            if not props:
                continue
            old, new = FLIP[type(node.ops[0])]
            left, right = node.left, node.comparators[0]
            if left.end_lineno != right.lineno:
                continue
            ln = left.end_lineno
            seg = lines[ln - 1][left.end_col_offset:right.col_offset]
            if seg.strip() != old:
                continue
            col = left.end_col_offset + seg.index(old)
            out.append({'file': f, 'line': ln, 'col': col, 'old': old, 'new': new, 'fn': (cls + '.' if cls else '') + (fn or '?'), 'props': props,
                        'text': lines[ln - 1].strip()[:90]})
    return out


def run(cmd, cwd=None, env=None, timeout=3000):
    try:
        p = subprocess.run(cmd, cwd=cwd, env=env, stdout=subprocess.PIPE, stderr=subprocess.STDOUT, text=True, timeout=timeout)
        return p.returncode, p.stdout
    except subprocess.TimeoutExpired:
        return 124, ''


def one(i_s):
    i, s = i_s
    wt = '/var/tmp/bsweep_%d' % i
    run(['git', '-C', REPO, 'worktree', 'add', '-q', '--detach', wt, 'HEAD'])
    try:
        p = os.path.join(wt, s['file'])
        lines = open(p).read().split('\n')
        l = lines[s['line'] - 1]
        lines[s['line'] - 1] = l[:s['col']] + s['new'] + l[s['col'] + len(s['old']):]
        open(p, 'w').write('\n'.join(lines))
        rc, out = run(['/venv/bin/python', '-c', 'import ast,sys; ast.parse(open(sys.argv[1]).read())', p])
        if rc != 0:
            return s, 'not-python', {}
        rc, out = run(['/venv/bin/python', '-m', 'pytest', '-q', '-x', '-p', 'no:cacheprovider', '--timeout=600', 'emd'], cwd=wt, timeout=1200)
        if rc != 0:
            return s, 'killed-by-tests', {}
        res = {}
        env = dict(os.environ, EMD_REPO=wt, VERIF_NO_EVIDENCE='1')
        for prop in s['props']:
            rc, out = run(['/verif/check', prop, '--tier', 'quick'], env=env, timeout=2400)
            res[prop] = {1: 'DETECTED', 0: 'missed'}.get(rc, 'error(%d)' % rc)
            if rc == 1:
                break
        verdict = 'DETECTED' if 'DETECTED' in res.values() else ('ERROR' if any(v.startswith('error') for v in res.values()) else 'SURVIVED')
        return s, verdict, res
    finally:
        run(['git', '-C', REPO, 'worktree', 'remove', '--force', wt])
        run(['rm', '-rf', wt])


def main():
    jobs = 3
    only = None
    a = sys.argv[1:]
    if '--jobs' in a:
        jobs = int(a[a.index('--jobs') + 1])
    if '--only' in a:
        only = a[a.index('--only') + 1]
    op = a[a.index('--op') + 1] if '--op' in a else 'boundary'
    allsites = sites() if op == 'boundary' else more_sites(op)
    S = [s for s in allsites if not only or only in s['file'] or only in s['fn']]
    if '--list' in a:
        for s in S:
            print('%s:%d\t%s\t%s -> %s\t%s\t%s' % (s['file'], s['line'], s['fn'], s['old'], s['new'], ','.join(s['props']), s['text']))
        print(len(S), 'sites')
        return
    outp = '/var/tmp/sweep_%s_%s.tsv' % (op, (only or 'all').replace('/', '_'))
    with open(outp, 'w') as f, ThreadPoolExecutor(jobs) as ex:
        for s, verdict, res in ex.map(one, enumerate(S)):
            line = '%s:%d\t%s\t%s -> %s\t%s\t%s\t%s' % (s['file'], s['line'], s['fn'], s['old'], s['new'], verdict,
                                                     ' '.join('%s=%s' % kv for kv in res.items()), s['text'])
            print(line, flush=True)
            f.write(line + '\n')
            f.flush()
    run(['git', '-C', REPO, 'worktree', 'prune'])


if __name__ == '__main__':
    main()
