#!/bin/bash
# confirm every finished round-5 change that is not yet stored under seeded/
cd /verif
for d in /tmp/seed5_out/C*/mut*; do
  [ -f $d/patch.diff ] && [ -f $d/demo.py ] && [ -f $d/meta.json ] || continue
  P=$(basename $(dirname $d)); M=$(basename $d)
  [ -d seeded/$P-r5$M ] && continue
  tools/confirm_seeded5.sh $P $M | tail -1
done
