#!/bin/bash
# revert_fix.sh <fix-commit> <Cxx> [tier]: temporarily undo one "fix:" commit in /repo's working tree and run a check
# (the defect must be reported again).  The working tree is restored afterwards.
C=$1; ID=$2; TIER=${3:-quick}
git -C /repo show $C > /var/tmp/revert_$$.diff
/verif/tools/try_mutant.sh /var/tmp/revert_$$.diff $ID $TIER -R
rm -f /var/tmp/revert_$$.diff
