#!/bin/bash
# matrix.sh : run every seeded change against its property's quick check, in parallel, each in its own scratch
# worktree of /repo (EMD_REPO points the harness at it; no evidence is written).  Results: seeded/MATRIX.tsv
cd /verif
run_one() {
  d=/verif/$1; id=$(basename $d); prop=${id%%-*}
  WT=/var/tmp/matrix_$id
  git -C /repo worktree add -q --detach $WT HEAD 2>/dev/null || { echo -e "$id\t$prop\tworktree-failed"; return; }
  if git -C $WT apply $d/patch.diff 2>/dev/null || git -C $WT apply --3way $d/patch.diff 2>/dev/null; then
    out=$(EMD_REPO=$WT VERIF_NO_EVIDENCE=1 timeout 1500 ./check $prop --tier quick 2>&1); rc=$?
    clause=$(echo "$out" | grep -A1 "^VIOLATION" | grep "^  " | head -1 | cut -c1-160)
    case $rc in 1) r=DETECTED;; 0) r=MISSED;; *) r="ERROR($rc)";; esac
    echo -e "$id\t$prop\t$r\t$clause"
  else
    echo -e "$id\t$prop\tpatch-needs-refresh"
  fi
  git -C /repo worktree remove --force $WT 2>/dev/null; rm -rf $WT
}
export -f run_one
ls -d ${MATRIX_GLOB:-seeded/C*-mut*} | xargs -P 6 -I{} bash -c 'run_one {}' > ${MATRIX_OUT:-seeded/MATRIX.tsv}.tmp
sort ${MATRIX_OUT:-seeded/MATRIX.tsv}.tmp > ${MATRIX_OUT:-seeded/MATRIX.tsv}; rm ${MATRIX_OUT:-seeded/MATRIX.tsv}.tmp
git -C /repo worktree prune
cat ${MATRIX_OUT:-seeded/MATRIX.tsv} | cut -f1-3
