#!/bin/bash
# try_mutant.sh <patch.diff> <Cxx> [tier] : apply a seeded change to /repo, run one check, undo it.
# Prints DETECTED / MISSED and the first VIOLATION lines.  (-R as 4th arg reverse-applies the patch.)
P=$1; ID=$2; TIER=${3:-quick}; REV=${4:-}
[ -z "$(git -C /repo status --porcelain)" ] || { echo "/repo not clean"; exit 2; }
git -C /repo apply $REV "$P" 2>/dev/null || git -C /repo apply $REV --3way "$P" || { echo "patch does not apply"; git -C /repo reset -q; git -C /repo checkout -- .; exit 2; }
trap 'git -C /repo reset -q; git -C /repo checkout -- . ' EXIT
OUT=$(cd /verif && timeout 3000 ./check $ID --tier $TIER 2>&1); rc=$?
echo "$OUT" | grep -E "^VIOLATION|^  |MACHINERY|KNOWN-FINDING" | head -8
echo "$OUT" | tail -1
if [ $rc = 1 ]; then echo "DETECTED $ID <- $P"; elif [ $rc = 0 ]; then echo "MISSED $ID <- $P"; else echo "ERROR rc=$rc $ID <- $P"; echo "$OUT" | tail -15; fi
