#!/bin/bash
# try_mutant.sh <patch.diff> <Cxx> [tier] [-R] : run one check against a seeded change.
# The change is applied to a scratch worktree of /repo HEAD (EMD_REPO points the harness at it), so that /repo itself
# is never modified and other runs that read /repo are not disturbed.  Prints DETECTED / MISSED and the first
# VIOLATION lines.  (-R as 4th argument reverse-applies the patch: used by revert_fix.sh.)
P=$1; ID=$2; TIER=${3:-quick}; REV=${4:-}
WT=/var/tmp/try_$$
git -C /repo worktree add -q --detach $WT HEAD || exit 2
trap 'git -C /repo worktree remove --force $WT 2>/dev/null; rm -rf $WT; git -C /repo worktree prune' EXIT
git -C $WT apply $REV "$P" 2>/dev/null || git -C $WT apply $REV --3way "$P" || { echo "patch does not apply"; exit 2; }
OUT=$(cd /verif && EMD_REPO=$WT VERIF_NO_EVIDENCE=1 timeout 3000 ./check $ID --tier $TIER 2>&1); rc=$?
echo "$OUT" | grep -E "^VIOLATION|^  |MACHINERY|KNOWN-FINDING" | head -8
echo "$OUT" | tail -1
if [ $rc = 1 ]; then echo "DETECTED $ID <- $P"; elif [ $rc = 0 ]; then echo "MISSED $ID <- $P"; else echo "ERROR rc=$rc $ID <- $P"; echo "$OUT" | tail -15; fi
