#!/usr/bin/env python3
"""Regenerate MANIFEST.json from the table below (single source of truth for the interface)."""
import json, os
V = os.path.dirname(os.path.dirname(os.path.abspath(__file__)))
ids = [json.loads(l)['id'] for l in open(os.path.join(V, 'properties.jsonl'))]
MC = 'model_checking'
TRUST = ('TLC 1.8 and the JSON/IOUtils community modules; the projection code in harness/mbv/checks (listed per check); '
         'numpy/scipy as used by the code under test; bounds of the enumerated domain as stated in the evidence file')
C = {
 'C12': dict(engine='Cycles', ref='4/C12', technique='TLA+ spec (Cycles/CyclesDef) model-checked with TLC; every enumerated phase series replayed into get_cycle_vector and every recorded call validated against the spec by TLC',
   text='TLC checks the partition theorems (labels 0..K-1 in temporal order, contiguous wrap-delimited runs, totality) of the specified cycle vector on every phase series of the enumerated domain; the same domain is pushed through the real get_cycle_vector (vector, column and two-column input, masks, all phase_step values) plus long float phases, and TLC validates every recorded call against the specification. Exhaustive on the stated small domain, sampled on long float phases.',
   note=TRUST + '; wrap threshold is a half-integer number of lattice units, so exact |diff| == phase_step ties are not exercised'),
 'C13': dict(engine='Cycles', ref='4/C13', technique='TLA+ spec (Cycles/CyclesDef) model-checked with TLC; recorded calls of get_cycle_vector(return_good, mask), is_good and Cycles.metrics validated against the spec by TLC',
   text='TLC checks soundness, completeness and the order-preserving-renumbering theorem of the specified good-cycle labelling for every phase series x phase_edge x mask of the enumerated domain (edge criteria evaluated at exact ties); real get_cycle_vector(return_good=True, mask=...), is_good (criterion by criterion) and the Cycles container (cache on/off, default and non-default phase_edge) are recorded on the same domain and validated against the specification by TLC.',
   note=TRUST),
}
C['C16'] = dict(engine='CycleMaps', ref='4/C16', technique='TLA+ spec (CycleMaps/CycleMapsDef) model-checked with TLC; every enumerated structure pushed through all 18 real map_*/project_* functions and validated against the spec by TLC',
   text='TLC checks totality, round trips, None-exactly, maximal-run chains and the projection theorems of the set-theoretic specification on every selection vector of up to 12 cycles combined with cycle-length compositions and unlabelled gaps; the harness enumerates exactly the same structures (count cross-checked against TLC), calls every map and projection of the real code on every valid index, and TLC validates each record field by field. Exhaustive on the stated domain; random larger instances sampled.',
   note=TRUST + '; map_sample_to_cycle may return None or -1 for an unlabelled sample (both are read as "none")')
C['C10'] = dict(engine='Spectra', ref='4/C10', technique='TLA+ spec (Spectra/SpectraDef) model-checked with TLC; the enumerated edge-hitting grid and random float instances pushed through hilberthuang (dense+sparse) and hilberthuang_1d and validated against the spec by TLC',
   text='TLC checks column conservation, one-bin-per-sample and 2-D/1-D marginal agreement of the per-sample histogram specification on every frequency/amplitude array of an edge-hitting grid (negative, below range, on every edge, inside, on the last edge, above); the harness enumerates the same grid (count cross-checked), calls the real dense, sparse and 1-D routines on shared arrays in rotating order, and TLC validates every output matrix entry; random float instances (linear/log bins, values on and one ulp beside edges) are validated with harness-supplied bin indices and fixed-point amplitudes.',
   note=TRUST + '; on float instances the bin of each sample is computed by the harness with exact comparisons edges[b] <= f < edges[b+1]')
C['C11'] = dict(engine='Spectra', ref='4/C11', technique='TLA+ spec (Spectra/SpectraDef incl. the index-folding refinement) model-checked with TLC; enumerated grid and float instances pushed through holospectrum (3 squash modes) and validated against the spec by TLC',
   text='TLC checks that the implementation-shaped index folding (digitize, fold, reshape, trim) refines the per-sample joint histogram for independent carrier/AM bin sets, plus conservation and shape; the harness enumerates the same grid of first/second-level frequency and amplitude arrays, calls holospectrum with squash_time False/sum/mean, and TLC validates the full output and the sum / T*mean relations entry by entry; random float instances with harness-supplied bins.',
   note=TRUST + '; time-mean is validated as T*mean = sum in fixed point')
C['C05'] = dict(engine='Extrema', ref='4/C05', technique='TLA+ spec (Extrema/ExtremaDef: strict extrema, parabolic vertices as exact rationals, numpy reflect-odd/edge padding incl. the repeat loop) model-checked with TLC; every enumerated signal pushed through get_padded_extrema / interp_envelope and validated against the spec by TLC',
   text='TLC checks exactness of detected extrema, the padding-shape theorems (strictly increasing, interior untouched, added points strictly outside, coverage of the record) and reversal / sign / scale equivariance of the specified rule on EVERY sequence of length 3..9 (quick: 7) over a 3-level alphabet x pad widths 0..5 x 3 modes x parabolic on/off; the harness pushes the same domain through get_padded_extrema and interp_envelope(ret_extrema=True) for splrep / pchip / mono_pchip x upper / lower / combined and TLC validates locations (exact, 1/24 sample), magnitudes (exact, 1/96), envelope length, sampling grid and knot values; random float signals are validated with harness-found peak positions.',
   note=TRUST + '; the sampling-grid classification rebuilds the scipy interpolant from the extrema the routine itself returned and compares at 1e-9; equivariance of scipy interpolants is trusted')
C['C04'] = dict(engine='SiftLoop', ref='4/C04', technique='TLA+ spec SiftLoop (token-map iterate, one action per loop step) model-checked with TLC incl. liveness; every TLC behaviour replayed through the unmodified get_next_imf with scripted kernels; recorded real executions validated against SiftLoopTrace by TLC',
   text='TLC checks the iterate relation, return rule, fixed-count, first-hit, iteration bound, never-unconverged and raise-only-at-limit invariants plus termination (liveness under weak fairness, no state constraint) for 3 stop rules x max_iters 1..5/6 x 3 step sizes x energy on/off over ALL sequences of envelope-missing / stop-fires choices; every maximal behaviour is replayed through the real get_next_imf with the numeric kernels replaced by scripted stubs (exact iteration count, exception, flag, returned array = token map on the stub arrays); thousands of real extractions (7 signal families, thresholds, steps, max_iters up to 1000, 3 interpolants, padding) are recorded event by event and TLC validates each trace against the specification, with the stop decision recomputed independently and the iterate relation / returned value checked bit-for-bit.',
   note=TRUST + '; stop decisions within 1e-9 (relative) of their threshold are excluded from the independent-decision clause and counted')
C['C01'] = dict(engine='Sift', ref='4/C01', technique='TLA+ spec Sift (outer loop over token maps, environment fixed at Init) model-checked with TLC incl. liveness; every behaviour replayed through the unmodified sift with scripted kernels; recorded real sifts validated against SiftTrace by TLC',
   text='TLC checks RunningResidual, Complete, ResidualIsInput, Peel, Prefix and termination of the outer loop for all extraction-outcome / small-IMF environments up to 4-5 layers, and that the historical mid-sift-extrema-loss deviation violates Complete; every behaviour is replayed through the real sift with scripted kernels (incl. the path on which extrema vanish mid-extraction) and the returned columns must equal the token maps; real sifts over the quantifier grid are recorded (per extraction: flag, kind, small, input == running residual bit-for-bit; at the end: completeness within rounding, strict interior extrema of the last column) and TLC validates every trace.',
   note=TRUST + '; termination of the outer loop on real signals is observed under a watchdog, in the model it is an environment assumption (some layer lacks extrema)')
NA = {}
checks = []
for i in ids:
    if i in C:
        c = C[i]
        checks.append({'property_id': i, 'quick_cmd': './check %s --tier quick' % i, 'thorough_cmd': './check %s --tier thorough' % i,
                       'evidence_file': 'evidence/%s.json' % i, 'replay_cmd_template': './check %s --replay {path}' % i,
                       'engine': c['engine'], 'level_claimed': {'category': MC, 'text': c['text'], 'design_ref': 'DESIGN.md section ' + c['ref']},
                       'level_note': c['note'], 'technique': c['technique']})
m = {'version': 1, 'setup_cmd': './setup.sh',
     'hooks': {'guard': 'EMD_VERIF_TRACE', 'enable': 'no source hooks in /repo: observation wrappers are installed from /verif/harness on module-level names of the emd package imported from /repo\'s working tree; ./check sets EMD_VERIF_TRACE=1',
               'baseline_off_cmd': '/verif/tools/baseline.sh', 'source_commits': [], 'add_only': True},
     'engines': [{'name': n, 'path': 'spec/%s.tla' % n, 'serves_properties': sorted(k for k in C if C[k]['engine'] == n),
                  'kind_free_text': 'TLA+ module(s) checked with TLC + conformance harness harness/mbv/checks'} for n in sorted(set(c['engine'] for c in C.values()))],
     'checks': checks,
     'notes': 'Model-based verification with explicit TLA+ specifications (DESIGN.md). Exit codes: 0 held, 1 VIOLATION, 2 machinery failure.',
     'not_applicable': [{'property_id': i, 'reason': NA.get(i, 'check not yet registered in this round (being built; see DESIGN.md section 4)')} for i in ids if i not in C]}
json.dump(m, open(os.path.join(V, 'MANIFEST.json'), 'w'), indent=1)
print('claimed', len(checks), 'not_applicable', len(m['not_applicable']))
