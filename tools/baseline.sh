#!/bin/bash
# Runs the repository's baseline test-suite (guard OFF) and checks that every
# test listed as stable_pass in /root/.vp/BASELINE.json (or the copy kept in
# /verif/tools/baseline_stable.txt) still passes.  Exit 0 iff all pass.
set -u
unset EMD_VERIF_TRACE EMD_VERIF_TRACE_DIR
OUT=$(mktemp -d /var/tmp/emd_baseline.XXXXXX)
trap 'rm -rf "$OUT"' EXIT
cd /repo && /venv/bin/python -m pytest -ra -q -p no:cacheprovider --timeout=900 \
    --continue-on-collection-errors --junitxml="$OUT/j.xml" >"$OUT/log" 2>&1
/venv/bin/python - "$OUT/j.xml" <<'PY'
import sys, xml.etree.ElementTree as ET
want=[l.strip() for l in open('/verif/tools/baseline_stable.txt') if l.strip()]
t=ET.parse(sys.argv[1]).getroot()
res={}
for tc in t.iter('testcase'):
    name=tc.get('classname')+'::'+tc.get('name')
    bad=any(c.tag in('failure','error','skipped') for c in tc)
    res[name]=not bad
missing=[w for w in want if not res.get(w)]
print('passed',sum(res.values()),'of',len(res),'; baseline',len(want),'missing',missing)
sys.exit(1 if missing else 0)
PY
