#!/bin/bash
# confirm every finished round-8 change that is not yet stored under seeded/
cd /verif
for d in /tmp/seed8_out/C*/mut*; do
  [ -f $d/patch.diff ] && [ -f $d/demo.py ] && [ -f $d/meta.json ] || continue
  P=$(basename $(dirname $d)); M=$(basename $d)
  [ -d seeded/$P-r8$M ] && continue
  tools/confirm_seeded8.sh $P $M | tail -1
done
