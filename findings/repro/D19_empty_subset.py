"""D19: Cycles.pick_cycle_subset with conditions that match no cycle raises ValueError half-way:
subset_vect / chain_vect / mask_conditions are already replaced but the 'chain_ind' metric still
describes the PREVIOUS selection, so metrics and subset disagree afterwards."""
import sys, numpy as np
sys.path.insert(0, '/repo')
import emd
U = 2 * np.pi / 24
p = np.array([2, 8, 14, 22, 2, 9, 15, 22, 1, 9, 16, 23, 3, 12, 21]) * U
C = emd.cycles.Cycles(p)
C.compute_cycle_metric('m', np.arange(len(p), dtype=float), np.max)
C.pick_cycle_subset(['m>5'])
before = C.metrics['chain_ind'].copy()
try:
    C.pick_cycle_subset(['m>100'])
    raised = False
except ValueError as e:
    raised = True
print('raised', raised, 'subset_vect', C.subset_vect, 'chain_ind', C.metrics['chain_ind'])
ok = (not raised) and np.all(C.subset_vect == -1) and np.all(C.metrics['chain_ind'] == -1)
sys.exit(0 if ok else 1)
