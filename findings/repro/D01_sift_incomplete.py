"""D1: when an envelope becomes undefined after >=1 mean removal inside get_next_imf,
the continue flag is cleared, sift stops and x - sum(imfs) is silently lost."""
import sys, numpy as np
sys.path.insert(0, '/repo')
import emd
bad = 0; n = 0
for seed in range(300):
    rng = np.random.RandomState(seed)
    N = rng.randint(5, 60)
    x = np.cumsum(rng.randn(N)) if seed % 2 else rng.randn(N)
    imf = emd.sift.sift(x, imf_opts={'env_step_size': [1, .5][seed % 3 == 0], 'sd_thresh': .1})
    err = np.abs(imf.sum(axis=1) - x).max()
    n += 1
    if err > 1e-9 * max(1, np.abs(x).max()) and np.abs(imf[:, -1]).sum() >= 1e-8:
        bad += 1
        if bad <= 3: print('seed', seed, 'N', N, 'ncols', imf.shape[1], 'sum error', err)
print('incomplete decompositions:', bad, 'of', n)
sys.exit(1 if bad else 0)
