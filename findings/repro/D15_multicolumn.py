"""D15: single-signal sift routines accept genuinely multi-column (n,2) and row (1,n)
input instead of rejecting it (get_next_imf returns an (n,2) array; sift never returns)."""
import sys, numpy as np
sys.path.insert(0, '/repo')
import emd
rng = np.random.RandomState(0)
bad = 0
for shape in ((64, 2), (1, 64), (64, 2, 3)):
    x = rng.randn(*shape)
    try:
        out, flag = emd.sift.get_next_imf(x)
        print(shape, 'accepted -> output shape', out.shape); bad += 1
    except ValueError as e:
        print(shape, 'rejected (ValueError)')
for shape in ((64,), (64, 1), (64, 1, 1)):
    out, _ = emd.sift.get_next_imf(rng.randn(*shape)); assert out.shape == (64, 1)
sys.exit(1 if bad else 0)
