"""D13: kdt_match uses positions in a SORTED COPY of the neighbour column as row
numbers, so on unsorted input rows of y are matched twice / wrong rows are matched."""
import sys, numpy as np
sys.path.insert(0, '/repo')
import emd
bad = 0; n = 0
for seed in range(200):
    rng = np.random.RandomState(seed)
    nx, ny, nf = rng.randint(2, 30), rng.randint(2, 30), rng.randint(1, 4)
    x = rng.randn(nx, nf); y = rng.randn(ny, nf)
    K = int(rng.randint(2, min(ny, 6) + 1))
    xi, yi = emd.cycles.kdt_match(x, y, K=K)
    n += 1
    ok = len(xi) == len(yi) and len(set(xi)) == len(xi) and len(set(yi)) == len(yi)
    if ok:
        for a, b in zip(xi, yi):
            d = np.sqrt(((y - x[a])**2).sum(axis=1))
            ok &= (d < d[b]).sum() < K        # b among the K nearest of x[a]
    bad += not ok
print('invalid pairings:', bad, 'of', n)
sys.exit(1 if bad else 0)
