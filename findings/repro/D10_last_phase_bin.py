"""D10: bin_by_phase loops over range(1, nbins), so the last phase bin is never filled."""
import sys, numpy as np
sys.path.insert(0, '/repo')
import emd
ip = np.linspace(0, 2*np.pi, 200, endpoint=False)
x = np.cos(ip)[:, None]
avg, var, centres = emd.cycles.bin_by_phase(ip, x, nbins=8)
print('bin means', np.round(avg[:, 0], 3))
sys.exit(1 if np.isnan(avg).any() else 0)
