"""D5: ensemble members on different worker processes start from the same forked
numpy.random state and therefore add identical noise realisations."""
import sys, os, tempfile, hashlib, numpy as np
sys.path.insert(0, '/repo')
import emd
LOG = tempfile.mktemp(prefix='d05_', dir='/var/tmp')
orig = emd.sift.sift
def spy(X, *a, **k):
    with open(LOG, 'a') as f:
        f.write(hashlib.sha1(np.ascontiguousarray(X).tobytes()).hexdigest() + '\n')
    return orig(X, *a, **k)
emd.sift.sift = spy
x = np.sin(np.arange(256) * .2)
bad = 0
for nproc in (1, 2, 4):
    open(LOG, 'w').close()
    np.random.seed(1)
    emd.sift.ensemble_sift(x, nensembles=8, nprocesses=nproc, max_imfs=2)
    d = [l.strip() for l in open(LOG)]
    print('nprocesses', nproc, 'members', len(d), 'distinct noisy inputs', len(set(d)))
    bad += len(set(d)) != len(d)
os.unlink(LOG)
sys.exit(1 if bad else 0)
