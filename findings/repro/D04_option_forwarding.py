"""D4: envelope_opts / extrema_opts given to mask_sift (and the noise sifts of
complete_ensemble_sift) never reach interp_envelope / get_padded_extrema."""
import sys, os, tempfile, numpy as np
sys.path.insert(0, '/repo')
import emd
LOG = tempfile.mktemp(prefix='d04_', dir='/var/tmp')  # stage calls happen in forked pool workers
orig = emd.sift.interp_envelope
def spy(X, mode='upper', interp_method='splrep', extrema_opts=None, ret_extrema=False):
    with open(LOG, 'a') as f:
        f.write('%s %s\n' % (interp_method, (extrema_opts or {}).get('pad_width')))
    return orig(X, mode=mode, interp_method=interp_method, extrema_opts=extrema_opts, ret_extrema=ret_extrema)
emd.sift.interp_envelope = spy
rng = np.random.RandomState(0); x = rng.randn(300)
bad = 0
for name, call in [
    ('mask_sift/zc', lambda: emd.sift.mask_sift(x, max_imfs=2, envelope_opts={'interp_method': 'pchip'}, extrema_opts={'pad_width': 3})),
    ('mask_sift/float', lambda: emd.sift.mask_sift(x, mask_freqs=.2, max_imfs=2, envelope_opts={'interp_method': 'pchip'}, extrema_opts={'pad_width': 3})),
    ('ceemd', lambda: emd.sift.complete_ensemble_sift(x, nensembles=2, max_imfs=2, envelope_opts={'interp_method': 'pchip'}, extrema_opts={'pad_width': 3})),
]:
    open(LOG, 'w').close()
    call()
    seen = [tuple(l.split()) for l in open(LOG)]
    wrong = sorted(set(s for s in seen if s != ('pchip', '3')))
    print(name, 'stage calls', len(seen), 'with wrong options:', wrong)
    bad += bool(wrong) or not seen
os.unlink(LOG)
sys.exit(1 if bad else 0)
