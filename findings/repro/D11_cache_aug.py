"""D11: augmented-mode metrics differ with the slice cache on/off: without the cache
the first cycle (no preceding quarter cycle) is computed over the WHOLE recording
(vals[None]) instead of being missing."""
import sys, numpy as np
sys.path.insert(0, '/repo')
import emd
one = np.linspace(0.05, 2*np.pi - 0.05, 16)
p = np.r_[one, one, one, one]
v = np.arange(len(p), dtype=float)
out = {}
for cache in (True, False):
    C = emd.cycles.Cycles(p, use_cache=cache)
    C.compute_cycle_metric('m', v, np.sum, mode='augmented')
    C.compute_cycle_timings()
    out[cache] = (C.metrics['m'], C.metrics['stop_sample'], C.metrics['duration'])
    print('cache', cache, 'aug sum', C.metrics['m'], 'stop', C.metrics['stop_sample'], 'dur', C.metrics['duration'])
same = all(np.array_equal(a, b, equal_nan=True) for a, b in zip(out[True], out[False]))
sys.exit(0 if same else 1)
