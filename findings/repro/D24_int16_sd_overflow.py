"""D24: get_next_imf squares the samples in the dtype of the input during the first SD test: for an int16 signal with
|x| > 181 the squares wrap around, the SD criterion is decided on garbage and the extraction of the SAME numbers stored as
float64 gives a different IMF."""
import sys, numpy as np
sys.path.insert(0, '/repo')
import emd
xi = np.array([117, 43, -29, 81, 239, 173, 49, 94, 71, 13, 19, 119, 227, 309, 244, 190, 264, 282, 347, 441, 462, 554, 480, 415, 344, 349, 280, 352, 406,
               338, 280, 214, 200, 135, 75, 60, -4, 40, 7, -46, -74, -11, 46, 16, 70, 129, 60, 13, 49, 110], dtype=np.int16)
worst = 0.0
rng = np.random.RandomState(40031)
for trial in range(200):
    x = np.round(np.cumsum(rng.randn(160)) * 40).astype(np.int16)
    a = emd.sift.get_next_imf(x[:, None])[0]
    b = emd.sift.get_next_imf(x.astype(float)[:, None])[0]
    worst = max(worst, float(np.abs(a - b).max()))
print('largest difference between the IMF of an int16 signal and of the same samples as float64:', worst)
sys.exit(1 if worst > 1e-9 else 0)
