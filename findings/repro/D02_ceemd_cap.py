"""D2: complete_ensemble_sift(max_imfs=k) returns k+2 columns."""
import sys, numpy as np
sys.path.insert(0, '/repo')
import emd
np.random.seed(0)
x = np.random.randn(400)
bad = 0
for k in (1, 2, 3, 4):
    imf, noise = emd.sift.complete_ensemble_sift(x, nensembles=2, max_imfs=k)
    print('cap', k, 'columns', imf.shape[1])
    bad += imf.shape[1] > k
sys.exit(1 if bad else 0)
