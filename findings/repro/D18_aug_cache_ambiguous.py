"""D18 (open): augmented-mode metrics depend on use_cache when the previous cycle is non-monotonic."""
import sys, numpy as np
sys.path.insert(0, '/repo')
import emd
U = 2 * np.pi / 24
p = np.array([2, 8, 14, 22, 2, 20, 5, 22, 1, 9, 16, 23, 3, 12, 21]) * U
v = np.arange(len(p), dtype=float)
out = {}
for cache in (True, False):
    C = emd.cycles.Cycles(p, use_cache=cache)
    C.compute_cycle_metric('s', v, np.sum, mode='augmented')
    out[cache] = C.metrics['s']
    print('use_cache', cache, out[cache])
sys.exit(0 if np.array_equal(out[True], out[False], equal_nan=True) else 1)
