"""D3: with parabolic_extrema=True the envelope is evaluated at frac(locs[0])+k
instead of at the integer sample indices 0..N-1."""
import sys, numpy as np
from scipy import interpolate as interp
sys.path.insert(0, '/repo')
import emd
rng = np.random.RandomState(3)
x = rng.randn(64)
worst = 0
for method in ('splrep', 'pchip', 'mono_pchip'):
    env, (locs, pks) = emd.sift.interp_envelope(x, mode='upper', interp_method=method,
                                                extrema_opts={'pad_width': 2, 'parabolic_extrema': True},
                                                ret_extrema=True)
    t = np.arange(len(x))
    ref = interp.splev(t, interp.splrep(locs, pks)) if method == 'splrep' else interp.PchipInterpolator(locs, pks)(t)
    d = np.abs(env - ref).max(); worst = max(worst, d)
    print(method, 'max |env - interpolant(0..N-1)| =', d)
sys.exit(1 if worst > 1e-9 else 0)
