"""D14: a SiftConfig written with to_yaml_text (or to_yaml_file) and read back with
from_yaml_stream has a *list* as its store and loses its sift type."""
import sys, io, os, tempfile, numpy as np
sys.path.insert(0, '/repo')
import emd
bad = 0
cfg = emd.sift.get_config('mask_sift'); cfg['imf_opts/sd_thresh'] = 0.05
back = emd.sift.SiftConfig.from_yaml_stream(cfg.to_yaml_text())
print('text route : type(store)=%s sift_type=%s' % (type(back.store).__name__, back.sift_type))
bad += not (isinstance(back.store, dict) and back.sift_type == 'mask_sift' and back['imf_opts/sd_thresh'] == 0.05)
fn = tempfile.mktemp(suffix='.yml', dir='/var/tmp'); cfg.to_yaml_file(fn)
try:
    with open(fn) as f:
        back = emd.sift.SiftConfig.from_yaml_stream(f)
    print('file handle: type(store)=%s sift_type=%s' % (type(back.store).__name__, back.sift_type))
    bad += not (isinstance(back.store, dict) and back.sift_type == 'mask_sift')
except Exception as e:
    print('file handle:', type(e).__name__, str(e)[:60]); bad += 1
os.unlink(fn)
sys.exit(1 if bad else 0)
