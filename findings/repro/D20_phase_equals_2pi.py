"""D20: frequency_transform can return an instantaneous phase of exactly 2*pi (outside [0, 2pi)):
np.mod of a value a rounding error below a multiple of 2*pi rounds up to the period itself."""
import sys, numpy as np
sys.path.insert(0, '/repo')
import emd
n, sr = 480, 1000
bad = 0
for Mp in (12, 16, 24, 48):
    for k0 in range(Mp):
        x = np.cos(2 * np.pi * (k0 + np.arange(n)) / Mp)[:, None]
        IP, IF, IA = emd.spectra.frequency_transform(x, sr, 'hilbert')
        bad += int((IP >= 2 * np.pi).sum())
print('samples with phase >= 2*pi:', bad, ' wrap_phase(-1e-17) =', repr(float(emd.utils.wrap_phase(np.array([-1e-17]))[0])))
sys.exit(1 if bad else 0)
