"""D21: mask_sift_second_layer writes 'max_imfs' and 'mask_freqs' into the caller's sift_args dictionary."""
import sys, numpy as np
sys.path.insert(0, '/repo')
import emd
rng = np.random.RandomState(0)
IA = np.abs(rng.randn(128, 2))
args = {'nphases': 2}
before = dict(args)
emd.sift.mask_sift_second_layer(IA, [.2, .1, .05], sift_args=args)
print('caller dict before', before, 'after', {k: (v if not hasattr(v, '__len__') else list(v)) for k, v in args.items()})
sys.exit(0 if args == before else 1)
