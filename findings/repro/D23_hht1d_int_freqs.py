"""D23: hilberthuang_1d raises 'cannot convert float NaN to integer' for ANY integer-typed frequency array (it marks
out-of-range samples with NaN in a copy that keeps the input's dtype), while hilberthuang accepts the same arrays: the
one-dimensional marginal spectrum cannot agree with the dense / sparse spectrum."""
import sys, numpy as np
sys.path.insert(0, '/repo')
import emd
F = np.array([[1, 7], [4, 3]])
A = np.array([[2, 1], [1, 2]])
e = np.array([0, 2, 4, 6, 8])
dense = emd.spectra.hilberthuang(F, A, e)
try:
    one = emd.spectra.hilberthuang_1d(F, A, e)
except ValueError as ex:
    print('hilberthuang_1d raised:', ex)
    sys.exit(1)
print('dense row sums', np.asarray(dense).sum(axis=1).tolist(), ' 1-d column sums', np.asarray(one).sum(axis=1).tolist())
sys.exit(0 if np.allclose(np.asarray(dense).sum(axis=1), np.asarray(one).sum(axis=1)) else 1)
