"""D22: get_padded_extrema loops forever (and keeps growing its arrays) when the caller's loc_pad_opts select an
np.pad mode that does not extrapolate the extrema locations beyond the signal edges (reflect/even, symmetric,
edge, wrap) - and with it every sift variant given such extrema_opts."""
import signal, sys, numpy as np
sys.path.insert(0, '/repo')
import emd


def alarm(*a):
    raise TimeoutError


signal.signal(signal.SIGALRM, alarm)
x = np.sin(np.linspace(0, 20, 200))
bad = 0
for opts in ({'mode': 'reflect', 'reflect_type': 'even'}, {'mode': 'edge'}, {'mode': 'symmetric'}, {'mode': 'wrap'}):
    signal.alarm(5)
    try:
        emd.sift.get_padded_extrema(x, pad_width=2, loc_pad_opts=dict(opts))
        print(opts, 'returned')
    except TimeoutError:
        print(opts, 'NO RETURN within 5 s')
        bad += 1
    except ValueError as e:
        print(opts, 'ValueError:', e)
    finally:
        signal.alarm(0)
sys.exit(1 if bad else 0)
