"""D13b: kdt_match(K=1) raises IndexError (cKDTree.query returns 1-D arrays for k=1)."""
import sys, numpy as np
sys.path.insert(0, '/repo')
import emd
x = np.array([[0.], [5.], [9.]]); y = np.array([[5.2], [0.1], [20.]])
try:
    xi, yi = emd.cycles.kdt_match(x, y, K=1)
except IndexError as e:
    print('IndexError', e); sys.exit(1)
print(xi, yi)
sys.exit(0 if (list(xi), list(yi)) == ([0, 1], [1, 0]) else 1)
