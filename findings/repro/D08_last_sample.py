"""D8: get_cycle_vector closes its boundary list with N-1 instead of N: the last
sample is never labelled, and a wrap on the last sample gives an empty segment
(IndexError with return_good=True)."""
import sys, numpy as np
sys.path.insert(0, '/repo')
import emd
bad = 0
p = np.array([1, 3, 5, 0.5, 2, 4, 6, 1, 3.])
cv = emd.cycles.get_cycle_vector(p, return_good=False)[:, 0]
print('labels', cv)
bad += cv[-1] == -1
p2 = np.array([1, 3, 5, 0.1, 2, 4, 6, 0.2])
try:
    cv2 = emd.cycles.get_cycle_vector(p2, return_good=True)[:, 0]
    print('wrap on last sample, good cycles:', cv2)
    cv3 = emd.cycles.get_cycle_vector(p2, return_good=False)[:, 0]
    print('wrap on last sample, all cycles :', cv3)
    bad += cv3[-1] == -1
except IndexError as e:
    print('wrap on last sample -> IndexError', e); bad += 1
sys.exit(1 if bad else 0)
