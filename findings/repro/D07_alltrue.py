"""D7: np.alltrue does not exist in numpy>=2 -> hilberthuang/holospectrum/phase_align/
bin_by_phase/masked get_cycle_vector/is_imf raise AttributeError on every input."""
import sys, numpy as np
sys.path.insert(0, '/repo')
import emd
f = np.array([[3.], [5.]]); a = np.ones((2, 1))
try:
    emd.spectra.hilberthuang(f, a, np.array([2., 4., 6.]))
    emd.sift.is_imf(np.sin(np.linspace(0, 20, 200))[:, None])
    emd.cycles.get_cycle_vector(np.linspace(0, 12, 50) % (2*np.pi), mask=np.ones(50, bool))
except AttributeError as e:
    print('BROKEN', e); sys.exit(1)
print('ok')
