"""D25: interp_envelope raises 'Envelope length does not match input data 15 16' when, with parabolic refinement, the
outermost padded extremum lies a rounding error above the last sample index (15.000000000000002): np.arange(start, stop)
then stops one sample short."""
import sys, numpy as np
sys.path.insert(0, '/repo')
import emd
x = np.array([-1.0, -1.0, 3.0, 0.0, -1.0, 2.0, -3.0, 4.0, -1.0, -2.0, 1.0, -0.0, 1.0, -1.0, -2.0, -0.0])
try:
    env = emd.sift.interp_envelope(x[:, None], mode='upper', extrema_opts={'pad_width': 1, 'parabolic_extrema': True})
    print('envelope length', len(env))
    sys.exit(0 if len(env) == len(x) else 1)
except ValueError as e:
    print('raised:', e)
    sys.exit(1)
