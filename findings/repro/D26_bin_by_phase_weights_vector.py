"""D26 (C19): bin_by_phase(ip, x, weights=w) raised IndexError for a plain vector x (x.shape[1]), although the same data
as a single column is accepted with weights and the vector is accepted without.  Exit 1 when the defect is present."""
import sys
sys.path.insert(0, sys.argv[1] if len(sys.argv) > 1 else '/repo')
import numpy as np
import emd
n = 48
ip = np.linspace(0, 14, n) % (2 * np.pi)
x = np.sin(np.arange(n) * .4)
w = 1.0 + np.arange(n) % 3
col = emd.cycles.bin_by_phase(ip, x[:, None], nbins=6, weights=w)
try:
    vec = emd.cycles.bin_by_phase(ip, x, nbins=6, weights=w)
except Exception as e:
    print('DEFECT: vector data with weights raised %s: %s' % (type(e).__name__, e))
    sys.exit(1)
same = np.array_equal(np.asarray(vec[0]).ravel(), np.asarray(col[0]).ravel(), equal_nan=True)
print('ok' if same else 'DEFECT: vector and column results differ')
sys.exit(0 if same else 1)
