"""D9: Cycles(phase, phase_edge=e) evaluates its is_good metric with the default edge."""
import sys, numpy as np
sys.path.insert(0, '/repo')
import emd
# three cycles starting at 0.5 rad: good only if phase_edge >= 0.5
one = np.linspace(0.5, 2*np.pi - 0.05, 20)
p = np.r_[one, one, one]
bad = 0
for edge in (np.pi/12, 0.6):
    C = emd.cycles.Cycles(p, phase_edge=edge)
    direct = [int(emd.cycles.is_good(one, phase_edge=edge))] * 3
    print('phase_edge %.3f container is_good %s direct %s' % (edge, C.metrics['is_good'], direct))
    bad += list(C.metrics['is_good']) != direct
sys.exit(1 if bad else 0)
