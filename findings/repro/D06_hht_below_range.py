"""D6: hilberthuang adds samples whose frequency lies below the first bin edge
(including negative frequencies) to the first bin; hilberthuang_1d drops them."""
import sys, numpy as np
sys.path.insert(0, '/repo')
import emd
edges = np.array([2., 4., 6.])
f = np.array([[1.], [-3.], [3.], [5.], [6.], [7.]])
a = np.ones_like(f)
h = emd.spectra.hilberthuang(f, a, edges, mode='amplitude')
h1 = emd.spectra.hilberthuang_1d(f, a, edges, mode='amplitude')
print('dense:\n', h, '\n1d:', h1.ravel())
expect = np.array([[0, 0, 1, 0, 0, 0], [0, 0, 0, 1, 0, 0.]])
ok = np.array_equal(h, expect) and np.array_equal(h.sum(axis=1), h1[:, 0])
sys.exit(0 if ok else 1)
