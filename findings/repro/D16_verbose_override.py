"""D16: per-call verbosity override. (a) requested before the logger is set up ->
KeyError after the computation; (b) a call that raises leaves the temporary level in force."""
import sys, logging, numpy as np
sys.path.insert(0, '/repo')
import emd
x = np.random.RandomState(0).randn(64)
bad = 0
try:
    emd.sift.sift(x, max_imfs=2, verbose='WARNING')
    print('(a) override before set_up: ok')
except KeyError as e:
    print('(a) override before set_up: KeyError', e); bad += 1
emd.logger.set_up(level='CRITICAL')
try:
    emd.sift.sift(np.zeros((8, 2, 3)), verbose='DEBUG')
except ValueError:
    pass
lvl = emd.logger.get_level()
print('(b) level after a raising call with verbose=DEBUG:', lvl, '(was 50)')
bad += lvl != 50
sys.exit(1 if bad else 0)
