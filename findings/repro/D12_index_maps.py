"""D12: index maps. (a) an unlabelled sample maps to the LAST cycle's subset entry;
(b) map_chain_to_cycle raises TypeError for a single-cycle chain."""
import sys, numpy as np
sys.path.insert(0, '/repo')
from emd import _cycles_support as cs
from emd.cycles import get_subset_vector, get_chain_vector
cycle_vect = np.array([-1, 0, 0, 1, 1, 2, 2, -1])
subset = get_subset_vector(np.array([1, 0, 1]))       # cycles 0 and 2 selected
chain = get_chain_vector(subset)                      # two single-cycle chains
bad = 0
r = cs.map_sample_to_subset(subset, cycle_vect, 0)
print('unlabelled sample 0 -> subset', r); bad += r is not None
r = cs.map_sample_to_chain(chain, subset, cycle_vect, 7)
print('unlabelled sample 7 -> chain', r); bad += r is not None
try:
    r = cs.map_chain_to_cycle(chain, subset, 1)
    print('chain 1 -> cycles', r); bad += list(np.atleast_1d(r)) != [2]
except TypeError as e:
    print('chain 1 -> cycles raises TypeError:', e); bad += 1
sys.exit(1 if bad else 0)
