"""D17: with parabolic_extrema=True the repeat-padding test is not mirror symmetric
(left: min(locs) >= 0, right: max(locs) < N): a fractional padded location in (N-1, N)
triggers another padding round, its mirror image in (-1, 0) does not.  Time reversal of the
input then no longer reverses the IMF."""
import sys, numpy as np
sys.path.insert(0, '/repo')
import emd
bad = 0; worst = 0
opts = {'pad_width': 1, 'parabolic_extrema': True}
x = np.array([0, 0, 1, 0, 2, 1.])
l1, m1 = emd.sift.get_padded_extrema(x, mode='peaks', **opts)
l2, m2 = emd.sift.get_padded_extrema(x[::-1].copy(), mode='peaks', **opts)
print('padded peaks forward', len(l1), 'reversed', len(l2))
bad += len(l1) != len(l2)
for seed in range(40):
    rng = np.random.RandomState(seed)
    x = rng.randn(rng.randint(20, 60))
    a, _ = emd.sift.get_next_imf(x, extrema_opts=opts)
    b, _ = emd.sift.get_next_imf(x[::-1].copy(), extrema_opts=opts)
    d = np.abs(a[::-1] - b).max(); worst = max(worst, d)
    bad += d > 1e-9
print('worst |rev(imf(x)) - imf(rev(x))| over 40 signals:', worst)
sys.exit(1 if bad else 0)
